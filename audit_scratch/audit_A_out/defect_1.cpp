// DEFECT 1 (C15 / C01): assigning or storing a wrapper to itself (or two wrappers to each other)
// dead-locks.  atomic_guarded / ordered_guarded have a forwarding `operator=(objType&&)` and
// `store(objType&&)` that evaluate `m_obj = std::forward<objType>(newObj)` WHILE HOLDING the
// wrapper's mutex.  When objType is the wrapper type itself the expression converts newObj through
// `operator T() const`, which locks newObj's mutex:
//   * `a = a;` / `a.store(a);`      -> same mutex locked twice by one thread (hang; with
//                                       std::shared_timed_mutex libstdc++ throws EDEADLK)
//   * `a = b;` in T1, `b = a;` in T2 -> classic ABBA dead-lock
// `a = b` is accepted silently by the compiler (the template beats the deleted copy assignment) and
// works when uncontended, so this is not a rejected API use.  An atomic register assignment
// `a = a` must be a no-op, and `a = b || b = a` must be linearizable; here neither terminates.
//
// build: g++ -std=c++17 -pthread -I/tmp/audit_A /tmp/audit_A_out/defect_1.cpp -o /tmp/audit_A_out/defect_1
// run:   for m in 0 1 2 3; do /tmp/audit_A_out/defect_1 $m; echo "exit=$?"; done
//        (every mode exits non-zero: 2 = watchdog saw the hang, 134 = std::system_error EDEADLK abort)
#include "gmlc/libguarded/atomic_guarded.hpp"
#include "gmlc/libguarded/ordered_guarded.hpp"

#include <chrono>
#include <csignal>
#include <cstdio>
#include <cstdlib>
#include <mutex>
#include <thread>
#include <unistd.h>

using namespace gmlc::libguarded;

static const char* stage = "";
static void onalarm(int)
{
    std::printf("DEADLOCK: still blocked after 3 s in: %s\n", stage);
    _exit(2);
}

// a std::mutex that gives the other thread time to take its own first lock (makes ABBA deterministic)
struct slow_mutex {
    std::mutex m;
    void lock()
    {
        m.lock();
        std::this_thread::sleep_for(std::chrono::milliseconds(200));
    }
    void unlock() { m.unlock(); }
    bool try_lock() { return m.try_lock(); }
};

int main(int argc, char** argv)
{
    setvbuf(stdout, nullptr, _IONBF, 0);
    signal(SIGALRM, onalarm);
    const int mode = (argc > 1) ? std::atoi(argv[1]) : 0;
    alarm(3);
    if (mode == 0) {
        atomic_guarded<int> a(1), b(2);
        a = b;  // compiles and works: a == 2
        std::printf("a = b  -> a.load() == %d\n", a.load());
        stage = "atomic_guarded<int>: a = a";
        a = a;
        std::printf("a = a returned\n");
    } else if (mode == 1) {
        atomic_guarded<int> a(1);
        stage = "atomic_guarded<int>: a.store(a)";
        a.store(a);
        std::printf("a.store(a) returned\n");
    } else if (mode == 2) {
        ordered_guarded<int> a(1), b(2);
        a = b;
        std::printf("a = b  -> a.load() == %d\n", a.load());
        stage = "ordered_guarded<int>: a = a";
        a = a;  // libstdc++: pthread_rwlock_wrlock -> EDEADLK -> std::system_error -> terminate
        std::printf("a = a returned\n");
    } else {
        atomic_guarded<int, slow_mutex> a(1), b(2);
        stage = "atomic_guarded: thread1 a = b  ||  thread2 b = a";
        std::thread t1([&] { a = b; });
        std::thread t2([&] { b = a; });
        t1.join();
        t2.join();
        std::printf("both assignments returned: a=%d b=%d\n", a.load(), b.load());
    }
    return 0;
}
