// DEFECT 2 (C08): a moved-from lock_handle / shared_lock_handle stays NON-NULL although it no
// longer holds the lock.  handles.hpp defaults the move constructor (`lock_handle(lock_handle&&) =
// default;`) and the move assignment copies `data` without clearing `other.data`, so the raw
// pointer is copied while the std::unique_lock / std::shared_lock is moved away.  Afterwards
// `if (h)` is true for the source, `*h` reaches the protected object without any lock, and another
// thread can obtain a second non-null exclusive handle at the same time ("a handle is non-null
// exactly when it holds the lock" is violated; unique_ptr / unique_lock guarantee a null source).
//
// build: g++ -std=c++17 -pthread -I/tmp/audit_A /tmp/audit_A_out/defect_2.cpp -o /tmp/audit_A_out/defect_2
// run:   /tmp/audit_A_out/defect_2 ; echo "exit=$?"      (exit status = number of violated checks, expected 0)
#include "gmlc/libguarded/guarded.hpp"
#include "gmlc/libguarded/shared_guarded.hpp"

#include <cstdio>
#include <future>

using namespace gmlc::libguarded;

int main()
{
    int bad = 0;
    {
        guarded<int> g(1);
        auto h1 = g.lock();
        auto h2 = std::move(h1);  // move construction: the lock now belongs to h2
        if (h1) {
            std::printf("lock_handle: moved-from handle (move ctor) tests non-null\n");
            ++bad;
        }
        h2.unlock();  // lock released exactly once -> nobody holds it
        // another thread gets the exclusive handle while h1 still claims to be valid
        bool second = std::async(std::launch::async, [&] {
                          auto h3 = g.try_lock();
                          return static_cast<bool>(h3);
                      }).get();
        if (second && h1) {
            std::printf("guarded: other thread obtained the exclusive handle while h1 is non-null (*h1=%d)\n",
                        *h1);
            ++bad;
        }
    }
    {
        guarded<int> g(1), g2(2);
        auto a = g.lock();
        auto b = g2.lock();
        b = std::move(a);  // move assignment: g2 released, g's lock now in b
        if (a) {
            std::printf("lock_handle: moved-from handle (move assignment) tests non-null\n");
            ++bad;
        }
    }
    {
        shared_guarded<int> s(1);
        auto s1 = s.lock_shared();
        auto s2 = std::move(s1);
        if (s1) {
            std::printf("shared_lock_handle: moved-from handle tests non-null\n");
            ++bad;
        }
        s2.unlock();
        auto w = s.try_lock();  // writer gets in: no shared lock is held any more
        if (w && s1) {
            std::printf("shared_guarded: writer handle and a non-null shared handle coexist\n");
            ++bad;
        }
    }
    std::printf("violations: %d\n", bad);
    return bad;
}
