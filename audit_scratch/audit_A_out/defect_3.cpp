// DEFECT 3 (C04): cow_guarded::handle publicly inherits std::unique_ptr<T, deleter>, and the
// deleter both commits AND releases the writer mutex.  `h.reset(p)` (the normal unique_ptr way to
// replace the whole private copy) therefore runs the deleter on the old copy: the half-finished
// old copy is published and the writer lock is dropped, but the handle stays non-null and keeps
// being writable.  A second writer now runs concurrently with the first one and its commit is
// overwritten when the first handle is finally released (lost update, writers not serialised
// "from lock() until the handle is released").
//
// build: g++ -std=c++17 -pthread -I/tmp/audit_A /tmp/audit_A_out/defect_3.cpp -o /tmp/audit_A_out/defect_3
// run:   timeout 10 /tmp/audit_A_out/defect_3 ; echo "exit=$?"   (exit status = number of violated checks, observed 2; a correct library would block the
//        second writer until h1 is released -> the program would then hang and `timeout` would report 124)
#include "gmlc/libguarded/cow_guarded.hpp"

#include <cstdio>
#include <thread>

using namespace gmlc::libguarded;

int main()
{
    int bad = 0;
    cow_guarded<int> c(1);
    {
        auto h1 = c.lock();
        *h1 = 7;                 // uncommitted work in progress
        h1.reset(new int(10));   // replace the private copy
        int published = *c.lock_shared();
        std::printf("after h1.reset(p): h1 non-null=%d, committed value=%d (expected 1: nothing released yet)\n",
                    static_cast<bool>(h1), published);
        if (published != 1) {
            ++bad;  // work in progress was published although the handle was not released
        }
        // second writer: must be excluded while h1 is alive
        std::thread t([&] {
            auto h2 = c.lock();
            *h2 += 1;
        });
        t.join();  // returns: the writer lock was NOT held by the live handle h1
        std::printf("second writer ran to completion while h1 is still alive; committed=%d\n",
                    *c.lock_shared());
        ++bad;
        *h1 += 1;  // 11
    }  // h1 released: commits 11 without holding the writer lock, overwriting h2's commit
    int fin = *c.lock_shared();
    std::printf("final committed value=%d (second writer's increment lost)\n", fin);
    std::printf("violations: %d\n", bad);
    return bad;
}
