// DEFECT 4 (handle life-cycle, nearest listed properties C08 / C14; rcu_guarded.hpp):
// rcu_guarded<T>::read_handle and write_handle are implicitly COPYABLE (user-declared destructor,
// no copy/move members), and since no move constructor exists `std::move(handle)` / returning or
// storing a handle by value silently copies too.  The copy shares the same reader-registration
// record (rcu_guard::m_zombie) and the same m_accessed flag, so the read-side critical section is
// ended twice:
//   mode 0: the second unlock touches the registration record after a later reader reclaimed it
//           -> heap-use-after-free inside rcu_guard::unlock()
//   mode 1: once the first copy is destroyed the surviving copy no longer protects anything:
//           an erased node is reclaimed while the surviving handle still iterates over it
//           -> heap-use-after-free on the list element
//
// build: g++ -std=c++17 -g -fsanitize=address -pthread -I/tmp/audit_A /tmp/audit_A_out/defect_4.cpp -o /tmp/audit_A_out/defect_4
// run:   /tmp/audit_A_out/defect_4 0 ; /tmp/audit_A_out/defect_4 1      (both abort with an AddressSanitizer report)
#include "gmlc/libguarded/rcu_guarded.hpp"
#include "gmlc/libguarded/rcu_list.hpp"

#include <cstdio>
#include <cstdlib>
#include <memory>

using namespace gmlc::libguarded;
using RG = rcu_guarded<rcu_list<int>>;

int main(int argc, char** argv)
{
    const int mode = (argc > 1) ? std::atoi(argv[1]) : 0;
    RG g;
    g.lock_write()->push_back(41);
    g.lock_write()->push_back(42);

    auto h1 = std::make_unique<RG::read_handle>(g.lock_read());
    auto it = (*h1)->begin();  // registers the reader
    // "move" the handle somewhere else (what one does to keep it in a container / hand it to a callee)
    auto h2 = std::make_unique<RG::read_handle>(std::move(*h1));
    h1.reset();  // the moved-from object is destroyed: un-registers the reader h2 relies on

    if (mode == 0) {
        auto h3 = std::make_unique<RG::read_handle>(g.lock_read());
        (*h3)->begin();
        h3.reset();  // later reader finishes, reclaims the (inactive) record of h1/h2
        h2.reset();  // second unlock of the same record -> use after free
    } else {
        {
            auto w = g.lock_write();
            w->erase(w->begin());  // erase 41 while h2 (holding `it`) is still a live read handle
        }
        {
            auto h3 = g.lock_read();
            h3->begin();
        }  // a later reader reclaims the erased node: it believes no older reader is active
        std::printf("value under the still-held read handle: %d\n", *it);  // use after free
        h2.reset();
    }
    std::printf("done (no report?)\n");
    return 0;
}
