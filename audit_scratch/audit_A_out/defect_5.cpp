// CANDIDATE 5 (C08, environment dependent - root cause is in libstdc++'s std::shared_timed_mutex, the
// library only forwards the time-out unchecked): with the DEFAULT mutex type of shared_guarded /
// shared_guarded_opt / ordered_guarded / deferred_guarded (std::shared_timed_mutex) a timed acquisition
// whose absolute deadline lies before the clock's epoch - e.g. the natural "already expired" sentinels
// `time_point::min()` or `duration::min()` - returns a NON-NULL handle although another thread holds
// the exclusive lock.  (libstdc++ 12: pthread_rwlock_clock{wr,rd}lock gets a timespec with negative
// tv_nsec, answers EINVAL, and shared_timed_mutex::try_lock[_shared]_until maps everything except
// ETIMEDOUT/EDEADLK to `true`.)  The handle is non-null without holding the lock (reader and writer, or two
// writers, overlap), and its destructor then calls unlock() on a rwlock the thread never locked.
// try_lock_handle_for/_until in handles.hpp could avoid it by treating non-positive time-outs as try_lock.
// With std::timed_mutex the same calls correctly return null handles.
//
// build: g++ -std=c++17 -pthread -I/tmp/audit_A /tmp/audit_A_out/defect_5.cpp -o /tmp/audit_A_out/defect_5
// run:   /tmp/audit_A_out/defect_5 ; echo "exit=$?"       (exit status = number of violated checks, expected 0)
#include "gmlc/libguarded/shared_guarded.hpp"

#include <chrono>
#include <cstdio>
#include <future>

using namespace gmlc::libguarded;
using namespace std::chrono;

int main()
{
    int bad = 0;
    {
        shared_guarded<int> g(1);  // default M = std::shared_timed_mutex
        auto holder = g.lock();    // main thread holds the exclusive handle for the whole block
        bad += std::async(std::launch::async, [&] {
                   auto h = g.try_lock_shared_for(nanoseconds::min());
                   if (h) {
                       std::printf("try_lock_shared_for(nanoseconds::min()) -> NON-NULL shared handle while a writer holds the lock (reads %d)\n", *h);
                       std::fflush(stdout);
                       // leak the bogus handle on purpose so that it does not unlock somebody else's lock
                       new decltype(h)(std::move(h));
                       return 1;
                   }
                   return 0;
               }).get();
    }
    {
        static shared_guarded<int> g(1);
        static auto holder = g.lock();
        bad += std::async(std::launch::async, [&] {
                   auto h = g.try_lock_until(steady_clock::time_point::min());
                   if (h) {
                       std::printf("try_lock_until(time_point::min()) -> NON-NULL exclusive handle while another thread holds the lock\n");
                       return 1;
                   }
                   return 0;
               }).get();  // the bogus handle is destroyed here and calls unlock() on a rwlock it never held (UB)
    }
    std::printf("violations: %d\n", bad);
    std::fflush(stdout);
    std::_Exit(bad);  // skip static destructors: the rwlock state is already inconsistent
}
