// DEFECT 6 (outside the listed properties; rcu_list.hpp exception safety, found while checking C14):
// rcu_list::erase() first marks the node `deleted`, unlinks it from the list and only THEN
// allocates the zombie record that is needed to reclaim the node later.  If that allocation throws
// (std::bad_alloc from the user supplied / default allocator) the exception leaves erase() with the
// element already removed from the list but registered nowhere: the node is never destroyed or
// deallocated (T's destructor never runs, memory leaked), and a retry of erase() on the same
// iterator is a silent no-op because `deleted` is already set.
//
// build: g++ -std=c++17 -g -fsanitize=address -pthread -I/tmp/audit_A /tmp/audit_A_out/defect_6.cpp -o /tmp/audit_A_out/defect_6
// run:   /tmp/audit_A_out/defect_6 ; echo "exit=$?"     (prints live=1 although every element was erased / the list
//        destroyed; exit 1; LeakSanitizer additionally reports the leaked node)
#include "gmlc/libguarded/rcu_guarded.hpp"
#include "gmlc/libguarded/rcu_list.hpp"

#include <cstdio>
#include <new>

using namespace gmlc::libguarded;

static int fail_countdown = -1;  // >=0: the n-th next allocation fails
static int live = 0;             // number of live Elem objects

struct Elem {
    int v;
    explicit Elem(int x): v(x) { ++live; }
    Elem(const Elem& o): v(o.v) { ++live; }
    ~Elem() { --live; }
};

template<class T>
struct FailAlloc {
    using value_type = T;
    FailAlloc() = default;
    template<class U>
    FailAlloc(const FailAlloc<U>&)
    {
    }
    T* allocate(std::size_t n)
    {
        if (fail_countdown >= 0 && fail_countdown-- == 0) {
            throw std::bad_alloc();
        }
        return static_cast<T*>(::operator new(n * sizeof(T)));
    }
    void deallocate(T* p, std::size_t) { ::operator delete(p); }
    template<class U>
    bool operator==(const FailAlloc<U>&) const
    {
        return true;
    }
    template<class U>
    bool operator!=(const FailAlloc<U>&) const
    {
        return false;
    }
};

int main()
{
    {
        rcu_guarded<rcu_list<Elem, std::mutex, FailAlloc<Elem>>> g;
        {
            auto w = g.lock_write();
            w->emplace_back(1);
            w->emplace_back(2);
            w->emplace_back(3);
            auto it = w->begin();
            ++it;  // element 2
            fail_countdown = 0;
            try {
                w->erase(it);
                std::printf("erase succeeded\n");
            }
            catch (const std::bad_alloc&) {
                std::printf("erase threw std::bad_alloc\n");
            }
            fail_countdown = -1;
            int n = 0;
            for (auto i = w->begin(); i != w->end(); ++i) {
                ++n;
            }
            std::printf("elements reachable after the failed erase: %d (element 2 is already gone)\n", n);
            w->erase(it);  // retry: silently ignored, node->deleted is already true
            for (auto i = w->begin(); i != w->end(); ++i) {
                w->erase(i);
            }
        }
        {
            auto r = g.lock_read();
            r->begin();
        }  // a later reader reclaims every registered zombie
    }      // list destroyed
    std::printf("live Elem objects after the list was destroyed: %d (expected 0)\n", live);
    std::fflush(stdout);
    return live != 0;
}
