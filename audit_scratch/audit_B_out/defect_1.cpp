// Defect 1 (C05, also C13): rcu_guarded<rcu_list<T>>::read_handle / write_handle are implicitly
// COPYABLE, and since they declare no move constructor "moving" a handle (into a container, an
// optional, out of a factory function without NRVO, ...) is a copy as well.  The copy shares the
// registration record (rcu_guard::m_zombie) of the original:
//   * as soon as ONE of the two is destroyed the record's owner is cleared, so the surviving,
//     still-in-use handle no longer protects anything: elements erased afterwards are destroyed and
//     freed by the next short-lived handle while an iterator obtained through the surviving handle
//     still rests on them                                              (mode "element", default)
//   * the record itself is reclaimed by a later handle and the second destructor then runs
//     rcu_guard::unlock() on freed memory                              (mode "record")
// All other handle types of the library (lock_handle, shared_lock_handle, cow handle) are move-only.
//
// build + run:
//   g++ -std=c++17 -g -O1 -fsanitize=address -I/tmp/audit_B /tmp/audit_B_out/defect_1.cpp -o /tmp/audit_B_d1 -pthread
//   /tmp/audit_B_d1            # heap-use-after-free reading the element (iterator::operator*)
//   /tmp/audit_B_d1 record     # heap-use-after-free in rcu_guard::unlock()
#include "gmlc/libguarded/rcu_list.hpp"

#include <cstdio>
#include <cstring>
#include <utility>
#include <vector>

using List = gmlc::libguarded::rcu_list<int>;
using Guarded = gmlc::libguarded::rcu_guarded<List>;

int main(int argc, char** argv)
{
    const bool recordMode = (argc > 1 && std::strcmp(argv[1], "record") == 0);
    Guarded lst;
    {
        auto w = lst.lock_write();
        w->push_back(1);
        w->push_back(2);
        w->push_back(3);
    }

    std::vector<Guarded::read_handle> keep;  // a long-lived reader kept in a container
    {
        auto r = lst.lock_read();
        (void)r->begin();  // the handle is in use (registered) from here on
        keep.push_back(std::move(r));  // "moves" the handle: really a copy sharing r's record
    }  // r destroyed: record owner := nullptr although keep[0] is alive and in use

    if (!recordMode) {
        auto& reader = keep[0];
        auto it = reader->begin();
        ++it;  // pause on element 2
        std::printf("reader paused on %d\n", *it);
        {
            auto w = lst.lock_write();
            auto wit = w->begin();
            ++wit;
            w->erase(wit);  // erase element 2 while the reader handle is alive
        }
        {
            auto shortLived = lst.lock_read();  // registers after the erase ...
            (void)shortLived->begin();
        }  // ... its release reclaims element 2 because no record has an owner any more
        std::printf("reader still sees %d\n", *it);  // heap-use-after-free
        ++it;
        std::printf("next %d\n", *it);
    } else {
        {
            auto r2 = lst.lock_read();
            (void)r2->begin();
        }  // frees the record keep[0] shares with the destroyed original
    }
    keep.clear();  // second unlock of the same record
    std::printf("no sanitizer report\n");
    return 0;
}
