// Defect 2 (C13): rcu_list::erase() unlinks the element and marks it deleted BEFORE it allocates
// the zombie bookkeeping record.  If that allocation throws (custom allocator / bad_alloc) the
// element is already unreachable from the list, is in no zombie record, and is flagged deleted
// (so a second erase() is a no-op): it is never destroyed and never deallocated, not even by
// ~rcu_list.  The exception also leaves the list half-modified (element gone, nothing to reclaim).
//
// build + run:
//   g++ -std=c++17 -g -O1 -fsanitize=address -I/tmp/audit_B /tmp/audit_B_out/defect_2.cpp -o /tmp/audit_B_d2 -pthread && /tmp/audit_B_d2
// expected on the unchanged library: "LEAK: ..." line, exit code 1 (and a LeakSanitizer report)
#include "gmlc/libguarded/rcu_list.hpp"

#include <cstdio>
#include <new>

static long g_allocs = 0;
static long g_deallocs = 0;
static bool g_failNext = false;

template<typename U>
struct FaultAlloc {
    using value_type = U;
    FaultAlloc() = default;
    template<typename V>
    FaultAlloc(const FaultAlloc<V>&) noexcept
    {
    }
    U* allocate(std::size_t n)
    {
        if (g_failNext) {
            g_failNext = false;
            throw std::bad_alloc();
        }
        ++g_allocs;
        return static_cast<U*>(::operator new(n * sizeof(U)));
    }
    void deallocate(U* p, std::size_t) noexcept
    {
        ++g_deallocs;
        ::operator delete(p);
    }
    template<typename V>
    bool operator==(const FaultAlloc<V>&) const noexcept
    {
        return true;
    }
    template<typename V>
    bool operator!=(const FaultAlloc<V>&) const noexcept
    {
        return false;
    }
};

static long g_ctor = 0;
static long g_dtor = 0;
struct Elem {
    int v;
    explicit Elem(int x): v(x) { ++g_ctor; }
    Elem(const Elem& o): v(o.v) { ++g_ctor; }
    Elem(Elem&& o) noexcept: v(o.v) { ++g_ctor; }
    ~Elem() { ++g_dtor; }
};

using List = gmlc::libguarded::rcu_list<Elem, std::mutex, FaultAlloc<Elem>>;
using Guarded = gmlc::libguarded::rcu_guarded<List>;

int main()
{
    bool threw = false;
    long remaining = 0;
    {
        Guarded lst;
        {
            auto w = lst.lock_write();
            w->emplace_back(1);
            w->emplace_back(2);
            w->emplace_back(3);
            auto it = w->begin();
            ++it;  // element 2
            g_failNext = true;  // the only allocation erase() performs is the zombie record
            try {
                w->erase(it);
            }
            catch (const std::bad_alloc&) {
                threw = true;
            }
            // retrying does not help: the node is already flagged deleted
            w->erase(it);
        }
        {
            auto r = lst.lock_read();
            for (auto it = r->begin(); it != r->end(); ++it) {
                ++remaining;
            }
        }
        {
            auto r = lst.lock_read();  // a later handle whose release reclaims whatever is reclaimable
            (void)r->begin();
        }
    }  // all handles released, list destroyed

    std::printf("erase threw=%d, elements left in list=%ld\n", threw, remaining);
    std::printf("Elem constructed=%ld destroyed=%ld; allocations=%ld deallocations=%ld\n",
                g_ctor, g_dtor, g_allocs, g_deallocs);
    std::fflush(stdout);
    if (g_ctor != g_dtor || g_allocs != g_deallocs) {
        std::printf("LEAK: %ld element(s) never destroyed, %ld block(s) never deallocated\n",
                    g_ctor - g_dtor, g_allocs - g_deallocs);
        std::fflush(stdout);
        return 1;
    }
    std::printf("ok\n");
    return 0;
}
