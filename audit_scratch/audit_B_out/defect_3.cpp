// Defect 3 (C16 with C20): when the pre-destruction callback of a DelayedDestructor throws for one
// object, destroyObjects() swallows the exception - and every other object of the same reaping
// pass is destroyed WITHOUT its callback ever running: the objects were already taken out of the
// queue into the local vector `ecall`, the loop over `ecall` is abandoned by the exception and
// `ecall` is destroyed during unwinding.  So "the callback runs once before each object reaped by
// destroyObjects" is violated for all objects behind the throwing one (both the locked and the
// single-thread class).
//
// build + run:
//   g++ -std=c++17 -g -O1 -fsanitize=address -I/tmp/audit_B /tmp/audit_B_out/defect_3.cpp -o /tmp/audit_B_d3 -pthread && /tmp/audit_B_d3
// expected on the unchanged library: "VIOLATION ..." lines, exit code 1
#include "gmlc/concurrency/DelayedDestructor.hpp"

#include <cstdio>
#include <memory>
#include <set>
#include <stdexcept>

static std::set<int> g_calledBack;
static int g_destroyedWithoutCallback = 0;
static int g_destroyed = 0;

struct Obj {
    int id;
    explicit Obj(int i): id(i) {}
    ~Obj()
    {
        ++g_destroyed;
        if (g_calledBack.count(id) == 0) {
            ++g_destroyedWithoutCallback;
            std::printf("  object %d destroyed by destroyObjects() without its callback\n", id);
        }
    }
};

template<class DD>
int run(const char* name)
{
    g_calledBack.clear();
    g_destroyedWithoutCallback = 0;
    g_destroyed = 0;
    std::printf("%s\n", name);
    int fails = 0;
    {
        DD dd([](std::shared_ptr<Obj>& p) {
            if (p->id == 0) {
                g_calledBack.insert(p->id);
                throw std::runtime_error("callback failure for object 0");
            }
            g_calledBack.insert(p->id);
        });
        for (int i = 0; i < 4; ++i) {
            dd.addObjectsToBeDestroyed(std::make_shared<Obj>(i));
        }
        auto left = dd.destroyObjects();  // noexcept: swallows the exception
        std::printf("  destroyObjects() returned %zu, destroyed=%d, callbacks run=%zu\n",
                    left, g_destroyed, g_calledBack.size());
        // the container is still usable
        dd.addObjectsToBeDestroyed(std::make_shared<Obj>(10));
        dd.destroyObjects();
        fails = g_destroyedWithoutCallback;
    }
    if (fails != 0) {
        std::printf("  VIOLATION: %d object(s) reaped by destroyObjects without the callback\n", fails);
    }
    return fails;
}

int main()
{
    int bad = 0;
    bad += run<gmlc::concurrency::DelayedDestructor<Obj>>("DelayedDestructor");
    bad += run<gmlc::concurrency::DelayedDestructorSingleThread<Obj>>("DelayedDestructorSingleThread");
    std::fflush(stdout);
    return bad != 0 ? 1 : 0;
}
