// Defect 4 (C16): DelayedDestructor::destroyObjects() decides twice, non-atomically, whether an
// object is unowned: first `use_count()==1` (object is copied into `ecall`, the callback list), later
// `use_count()==2` inside remove_if (object is taken out of the queue).  A std::weak_ptr observer
// that lock()s the object between the two tests makes them disagree: the object stays queued, yet
// the pre-destruction callback is run on it - while another owner holds and uses it - and it is run
// a SECOND time when the object is really reaped later.  ("callback runs once before each object
// reaped", "never while another owner still holds it".)
// No lock can prevent this on the user's side: weak_ptr::lock() is the documented way to observe a
// shared object and the container's mutex is private.
//
// build + run (a real race, so the program retries; it normally hits within the first few rounds):
//   g++ -std=c++17 -g -O1 -I/tmp/audit_B /tmp/audit_B_out/defect_4.cpp -o /tmp/audit_B_d4 -pthread && /tmp/audit_B_d4
// expected on the unchanged library: "VIOLATION ..." line, exit code 1
#include "gmlc/concurrency/DelayedDestructor.hpp"

#include <atomic>
#include <cstdio>
#include <memory>
#include <thread>
#include <vector>

struct Obj {
    int id;
    std::atomic<int> callbacks{0};
    explicit Obj(int i): id(i) {}
};

int main()
{
    constexpr int N = 20000;
    for (int round = 1; round <= 500; ++round) {
        std::atomic<int> callbackOnOwnedObject{0};
        std::atomic<int> doubleCallback{0};
        gmlc::concurrency::DelayedDestructor<Obj> dd([&](std::shared_ptr<Obj>& p) {
            // the object has been "reaped": nobody but the container may own it any more
            if (p.use_count() > 1) {
                ++callbackOnOwnedObject;
            }
            if (++p->callbacks > 1) {
                ++doubleCallback;
            }
        });
        std::weak_ptr<Obj> observer;
        for (int i = 0; i < N; ++i) {
            auto sp = std::make_shared<Obj>(i);
            if (i == N / 2) {
                observer = sp;
            }
            dd.addObjectsToBeDestroyed(std::move(sp));
        }
        std::atomic<bool> stop{false};
        std::thread watcher([&] {
            while (!stop.load()) {
                if (auto sp = observer.lock()) {  // observe the object for a short while
                    for (volatile int k = 0; k < 2000; ++k) {
                    }
                }
                for (volatile int k = 0; k < 2000; ++k) {
                }
            }
        });
        dd.destroyObjects();
        stop = true;
        watcher.join();
        dd.destroyObjects();  // observer gone: whatever was left is reaped now
        if (callbackOnOwnedObject.load() != 0 || doubleCallback.load() != 0) {
            std::printf("round %d: VIOLATION: callback ran on an object still owned elsewhere: %d time(s); "
                        "callback ran twice for the same object: %d time(s)\n",
                        round, callbackOnOwnedObject.load(), doubleCallback.load());
            std::fflush(stdout);
            return 1;
        }
    }
    std::printf("race not hit\n");
    return 0;
}
