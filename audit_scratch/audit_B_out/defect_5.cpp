// Defect 5 (C07, latch fast path): Latch::wait() returns WITHOUT taking the mutex as soon as it reads
// counter_ <= 0.  The last arriver decrements counter_ while it holds the mutex and afterwards still
// calls cv.notify_all() and unlocks the mutex.  A waiter that comes through the fast path is therefore
// not ordered after the end of arrive(): "everybody has arrived" is reported while the last arrive()
// is still working on the latch's mutex / condition variable.  The usual latch idiom - the waiting
// thread owns the latch and disposes of it once wait() has returned - then races with arrive()
// (accesses to freed memory / destroyed mutex).  Without the fast path (or with the decrement done
// last / notify outside) the waiter would be ordered after arrive() through the mutex.
//
// build + run:
//   g++ -std=c++17 -g -O1 -fsanitize=thread -I/tmp/audit_B /tmp/audit_B_out/defect_5.cpp -o /tmp/audit_B_d5 -pthread && /tmp/audit_B_d5
// expected on the unchanged library: ThreadSanitizer report (data race / heap-use-after-free between
// Latch::arrive() [mutex unlock / notify_all] and the destruction of the latch), non-zero exit
#include "gmlc/concurrency/Latch.hpp"

#include <atomic>
#include <cstdio>
#include <memory>
#include <thread>

int main()
{
    for (int round = 0; round < 2000; ++round) {
        auto latch = std::make_unique<gmlc::concurrency::Latch>(1);
        gmlc::concurrency::Latch* lp = latch.get();
        std::thread worker([lp] { lp->arrive(); });
        lp->wait();  // all (one) participants have arrived ...
        latch.reset();  // ... so the owner disposes of the latch
        worker.join();
    }
    std::printf("done\n");
    return 0;
}
