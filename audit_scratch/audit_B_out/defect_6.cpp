// Defect 6 (C07; handle state): a moved-from lock_handle / shared_lock_handle stays NON-NULL.
// `lock_handle(lock_handle&&) = default` and the move assignment copy the raw `data` pointer but
// never clear it in the source, while the std::unique_lock is moved away.  After
//     auto h2 = std::move(h1);
// h1 still tests true and still dereferences to the protected object, but owns no lock.  Once h2 is
// released another thread can lock the object, so two non-null exclusive handles exist at the same
// time and both grant access: a data race in a program that only ever used the library's handles
// and checked them with operator bool (std::unique_ptr / std::unique_lock, which the handle
// combines, are both specified to be empty after a move).
//
// build + run:
//   g++ -std=c++17 -g -O1 -fsanitize=thread -I/tmp/audit_B /tmp/audit_B_out/defect_6.cpp -o /tmp/audit_B_d6 -pthread && /tmp/audit_B_d6
// expected on the unchanged library: "VIOLATION" lines + ThreadSanitizer data race on the guarded int,
// non-zero exit
#include "gmlc/libguarded/guarded.hpp"
#include "gmlc/libguarded/shared_guarded.hpp"

#include <cstdio>
#include <thread>
#include <utility>

int main()
{
    int bad = 0;
    gmlc::libguarded::guarded<int> g(0);

    auto h1 = g.lock();
    {
        auto h2 = std::move(h1);  // ownership of the lock moves to h2
        *h2 += 1;
    }  // h2 released: the mutex is free again
    if (h1) {
        std::printf("VIOLATION: moved-from lock_handle is non-null although it owns no lock\n");
        ++bad;
    }
    auto other = g.try_lock();
    if (other && h1) {
        std::printf("VIOLATION: two non-null exclusive handles to the same guarded object\n");
        ++bad;
    }
    other.unlock();

    // move assignment behaves the same
    auto h3 = g.lock();
    auto h4 = g.try_lock();  // null: h3 holds the lock
    h4 = std::move(h3);
    h4.unlock();
    if (h3) {
        std::printf("VIOLATION: move-assigned-from lock_handle is non-null although it owns no lock\n");
        ++bad;
    }

    // shared handle
    gmlc::libguarded::shared_guarded<int> sg(0);
    auto s1 = sg.lock_shared();
    {
        auto s2 = std::move(s1);
    }
    auto w = sg.try_lock();  // succeeds: no shared lock is held any more
    if (w && s1) {
        std::printf("VIOLATION: non-null shared handle coexists with an exclusive handle\n");
        ++bad;
    }
    w.unlock();

    // the resulting data race, every access guarded by `if (handle)`
    std::thread t([&g] {
        for (int i = 0; i < 1000; ++i) {
            auto h = g.lock();
            if (h) {
                *h += 1;
            }
        }
    });
    for (int i = 0; i < 1000; ++i) {
        if (h1) {
            *h1 += 1;
        }
    }
    t.join();
    std::fflush(stdout);
    return bad != 0 ? 1 : 0;
}
