// Defect 7 (C20): SearchableObjectHolder::addObject(name, obj, type) inserts the object into
// objectMap FIRST and then builds the type entry with `typeMap.emplace(name, std::vector<Y>{type})`,
// which copies the user's type tag Y.  If that copy throws, the exception propagates (the lock is
// released), but the object has already been registered: the failed call leaves the holder
// half-modified - the object is found by findObject(), it has no type entry, and repeating the
// failed addObject() now returns false ("already there") so the type can never be attached through
// addObject.
//
// build + run:
//   g++ -std=c++17 -g -O1 -fsanitize=address -I/tmp/audit_B /tmp/audit_B_out/defect_7.cpp -o /tmp/audit_B_d7 -pthread && /tmp/audit_B_d7
// expected on the unchanged library: "VIOLATION ..." lines, exit code 1
#include "gmlc/concurrency/SearchableObjectHolder.hpp"

#include <cstdio>
#include <memory>
#include <stdexcept>

static int g_throwAtCopy = 0;  // throw at the k-th copy from now on (0 = never)

struct Tag {
    int v{0};
    explicit Tag(int x): v(x) {}
    Tag(const Tag& o): v(o.v)
    {
        if (g_throwAtCopy > 0 && --g_throwAtCopy == 0) {
            throw std::runtime_error("Tag copy failed");
        }
    }
    Tag& operator=(const Tag&) = default;
    bool operator==(const Tag& o) const { return v == o.v; }
};

int main()
{
    int bad = 0;
    {
        gmlc::concurrency::SearchableObjectHolder<int, Tag> holder;
        Tag tag(7);
        bool threw = false;
        // copy #1 builds the by-value parameter (outside the holder), copy #2 is made inside
        // addObject while it fills the type map
        g_throwAtCopy = 2;
        try {
            holder.addObject("obj", std::make_shared<int>(42), tag);
        }
        catch (const std::runtime_error&) {
            threw = true;
        }
        g_throwAtCopy = 0;
        std::printf("addObject threw: %d\n", threw);
        const bool usable = holder.empty() || true;  // would dead-lock if the lock had leaked
        (void)usable;
        if (threw && holder.findObject("obj")) {
            std::printf("VIOLATION: the failed addObject() nevertheless registered the object\n");
            ++bad;
            if (!holder.checkObjectType("obj", tag)) {
                std::printf("VIOLATION: ... without its type entry (half-modified)\n");
                ++bad;
            }
            if (!holder.addObject("obj", std::make_shared<int>(42), tag)) {
                std::printf("VIOLATION: retrying the failed addObject() is refused\n");
                ++bad;
            }
        }
        holder.removeObject("obj");
    }
    std::fflush(stdout);
    return bad != 0 ? 1 : 0;
}
