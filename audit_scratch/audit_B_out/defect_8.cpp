// Defect 8 (C16): with ENABLE_TRIPWIRE (a supported configuration of DelayedDestructor.hpp) the
// destructors of DelayedDestructor / DelayedDestructorSingleThread `return` early once the trip
// line is tripped and the queue is not empty after a reaping pass.  That early return skips
// releaseRemaining(), so everything still queued is destroyed by the member vector's own destructor,
// i.e. the element destructors run while `ElementsToBeDestroyed` is being torn down.  An element
// destructor that calls back into the container (addObjectsToBeDestroyed / size / destroyObjects -
// explicitly supported) then works on a vector in the middle of its destruction: push_back
// reallocates the storage ~vector is iterating over (heap-use-after-free) and the objects handed
// over are never destroyed at all (lost objects).  releaseRemaining() exists precisely to avoid
// this, but the tripwire exit bypasses it.
//
// build + run:
//   g++ -std=c++17 -g -O1 -fsanitize=address -DENABLE_TRIPWIRE -I/tmp/audit_B /tmp/audit_B_out/defect_8.cpp -o /tmp/audit_B_d8 -pthread && /tmp/audit_B_d8
//   (variant: add -DSINGLE_THREAD for DelayedDestructorSingleThread)
// expected on the unchanged library: AddressSanitizer heap-use-after-free below ~vector /
// ~DelayedDestructor; with ASAN_OPTIONS=halt_on_error=0 or without ASan: "VIOLATION: ... never
// destroyed", exit code 1
#include "gmlc/concurrency/TripWire.hpp"
#include "gmlc/concurrency/DelayedDestructor.hpp"

#include <cstdio>
#include <memory>

DECLARE_TRIPLINE()

using namespace gmlc::concurrency;

static int g_created = 0;
static int g_destroyed = 0;

struct Node;
#ifdef SINGLE_THREAD
using DD = DelayedDestructorSingleThread<Node>;
#else
using DD = DelayedDestructor<Node>;
#endif
static DD* g_dd = nullptr;

struct Node {
    std::shared_ptr<Node> child;  // handed to the delayed destructor when this node dies
    explicit Node(int depth)
    {
        ++g_created;
        if (depth > 0) {
            child = std::make_shared<Node>(depth - 1);
        }
    }
    ~Node()
    {
        ++g_destroyed;
        if (child && g_dd != nullptr) {
            g_dd->addObjectsToBeDestroyed(std::move(child));  // supported re-entrant call
        }
    }
};

int main()
{
    {
        auto* dd = new DD();
        g_dd = dd;
        for (int i = 0; i < 3; ++i) {
            dd->addObjectsToBeDestroyed(std::make_shared<Node>(2));  // node -> child -> grandchild
        }
        {
            TripWireTrigger trigger;  // trips the line when it goes out of scope
        }
        // ~DelayedDestructor: the first pass reaps the 3 nodes, whose destructors queue their
        // children; the queue is therefore not empty, the line is tripped -> early return; the
        // children are destroyed by ~vector and try to queue the grandchildren
        delete dd;
        g_dd = nullptr;
    }
    std::printf("created=%d destroyed=%d\n", g_created, g_destroyed);
    if (g_created != g_destroyed) {
        std::printf("VIOLATION: %d object(s) handed to the DelayedDestructor were never destroyed\n",
                    g_created - g_destroyed);
        std::fflush(stdout);
        return 1;
    }
    return 0;
}
