// Extra observation (outside the listed properties: lost wake-up in TriggerVariable).
// reset() on an active, untriggered variable "causes the trigger to occur and then be reset", i.e. it
// must release the threads blocked in wait().  But the released waiter has to re-acquire triggerLock
// and re-evaluate `triggered`; an activate() that follows the reset() clears `triggered` under the
// same lock.  If activate() wins that lock, the waiter of the PREVIOUS cycle finds triggered==false and
// goes back to sleep: its wake-up is lost and it now waits for the trigger of the next cycle.
//
// build + run:
//   g++ -std=c++17 -g -O1 -I/tmp/audit_B /tmp/audit_B_out/extra_triggervariable.cpp -o /tmp/audit_B_x1 -pthread && /tmp/audit_B_x1
// expected on the unchanged library: "LOST WAKE-UP in round N", exit code 1 (a race; retried)
#include "gmlc/concurrency/TriggerVariable.hpp"

#include <atomic>
#include <chrono>
#include <cstdio>
#include <thread>

int main()
{
    using namespace std::chrono_literals;
    for (int round = 1; round <= 2000; ++round) {
        gmlc::concurrency::TriggerVariable tv;
        tv.activate();
        std::atomic<bool> released{false};
        std::thread waiter([&] {
            tv.wait();
            released = true;
        });
        std::this_thread::sleep_for(2ms);  // let the waiter block
        tv.reset();  // triggers, which must release the waiter, then deactivates
        tv.activate();  // next cycle
        auto deadline = std::chrono::steady_clock::now() + 300ms;
        while (!released && std::chrono::steady_clock::now() < deadline) {
            std::this_thread::sleep_for(1ms);
        }
        const bool lost = !released;
        tv.trigger();  // let the waiter go in any case
        waiter.join();
        if (lost) {
            std::printf("LOST WAKE-UP in round %d: waiter of the previous cycle was not released by reset()\n", round);
            return 1;
        }
    }
    std::printf("not hit\n");
    return 0;
}
