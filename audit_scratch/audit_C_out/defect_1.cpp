// C17: type tags attached with addType() to a name that holds no object are
// kept as an orphan record; a later addObject(name, obj, type) for that name
// succeeds but its type tag is silently dropped (typeMap.emplace fails), and
// the object carries the stale tag instead.  The orphan tags also make
// checkObjectType() answer true for a name that stores no object, and survive
// removeObject() of a never-existing / already-removed name.
//
// build + run:
//   g++ -std=c++17 -g -I/tmp/audit_C -pthread /tmp/audit_C_out/defect_1.cpp -o /tmp/audit_C_d1 && /tmp/audit_C_d1
#include "gmlc/concurrency/SearchableObjectHolder.hpp"
#include <cstdio>
using gmlc::concurrency::SearchableObjectHolder;

int main()
{
    int fails = 0;
    SearchableObjectHolder<int, int> h;
    // life cycle of name "a": add with tag 1, remove (tags must go with it)
    h.addObject("a", std::make_shared<int>(10), 1);
    h.removeObject("a");
    // a late addType for the removed name (e.g. a client that lost the race
    // against the remover) - there is no object called "a" any more
    h.addType("a", 7);
    if (h.checkObjectType("a", 7)) {
        std::printf("FAIL: checkObjectType(\"a\",7) true although no object \"a\" is stored\n");
        ++fails;
    }
    // name is re-used for a NEW object with tag 2
    bool added = h.addObject("a", std::make_shared<int>(20), 2);
    std::printf("addObject(a, obj, 2) -> %d\n", added);
    if (added && !h.checkObjectType("a", 2)) {
        std::printf("FAIL: object \"a\" was added with tag 2 but checkObjectType(\"a\",2) is false\n");
        ++fails;
    }
    if (h.checkObjectType("a", 7)) {
        std::printf("FAIL: new object \"a\" inherited stale tag 7\n");
        ++fails;
    }
    auto f = h.findObject([](const std::shared_ptr<int>&) { return true; }, 2);
    if (!f) {
        std::printf("FAIL: findObject(pred, 2) does not find the object added with tag 2\n");
        ++fails;
    }
    h.removeObject("a");
    return fails ? 1 : 0;
}
