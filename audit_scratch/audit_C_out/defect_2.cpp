// C18: what fulfillAllPromises leaves behind after an exception.
// fulfillAllPromises() moves every promise it has satisfied into the "used"
// map but only clears the pending maps at the very end.  If set_value throws
// for one element (copy constructor of X throws, or the map insertion throws
// bad_alloc), the already handled keys stay in the pending map holding
// MOVED-FROM promises (no shared state).  From then on
//   * setDelayedValue(key) on such a key throws std::future_error(no_state)
//     instead of being a harmless no-op for an already completed key,
//   * a second fulfillAllPromises() throws no_state before reaching the
//     promises that are still pending, so their futures are never fulfilled,
//   * ~DelayedObjects calls set_value on the moved-from promise: future_error
//     escapes a destructor -> std::terminate.
//
// build + run:
//   g++ -std=c++17 -g -I/tmp/audit_C -pthread /tmp/audit_C_out/defect_2.cpp -o /tmp/audit_C_d2 && /tmp/audit_C_d2
// expected on a correct library: exit 0.  observed: "terminate called after
// throwing an instance of 'std::future_error' ... No associated state", abort.
#include "gmlc/concurrency/DelayedObjects.hpp"
#include <cstdio>
#include <stdexcept>

struct Val {
    int v{0};
    static int failAt;  // the failAt-th copy throws (0 = never)
    static int copies;
    Val() = default;
    explicit Val(int x): v(x) {}
    Val(const Val& o): v(o.v)
    {
        if (failAt != 0 && ++copies == failAt) {
            throw std::runtime_error("copy failed");
        }
    }
    Val(Val&&) noexcept = default;
    Val& operator=(const Val&) = default;
    Val& operator=(Val&&) noexcept = default;
};
int Val::failAt = 0;
int Val::copies = 0;

int main()
{
    int fails = 0;
    std::setvbuf(stdout, nullptr, _IONBF, 0);
    {
        gmlc::concurrency::DelayedObjects<Val> d;
        auto f1 = d.getFuture(1);
        auto f2 = d.getFuture(2);
        auto f3 = d.getFuture(3);
        Val::failAt = 2;  // copy into promise 1 works, copy into promise 2 throws
        try {
            d.fulfillAllPromises(Val(7));
            std::printf("no exception?\n");
        }
        catch (const std::runtime_error& e) {
            std::printf("fulfillAllPromises threw: %s (transient failure)\n", e.what());
        }
        Val::failAt = 0;  // the failure was transient
        bool r1 = f1.wait_for(std::chrono::seconds(0)) == std::future_status::ready;
        std::printf("f1 ready=%d value=%d\n", r1, r1 ? f1.get().v : -1);
        // key 1 is completed: setting it again must be a harmless no-op
        try {
            d.setDelayedValue(1, Val(9));
        }
        catch (const std::future_error& e) {
            std::printf("FAIL: setDelayedValue on completed key 1 threw future_error: %s\n", e.what());
            ++fails;
        }
        // retry: keys 2 and 3 are still pending and must be fulfilled now
        try {
            d.fulfillAllPromises(Val(8));
        }
        catch (const std::future_error& e) {
            std::printf("FAIL: retry of fulfillAllPromises threw future_error: %s\n", e.what());
            ++fails;
        }
        bool r2 = f2.wait_for(std::chrono::seconds(0)) == std::future_status::ready;
        bool r3 = f3.wait_for(std::chrono::seconds(0)) == std::future_status::ready;
        std::printf("after retry: f2 ready=%d f3 ready=%d\n", r2, r3);
        if (!r2 || !r3) {
            std::printf("FAIL: pending futures not fulfilled by fulfillAllPromises\n");
            ++fails;
        }
        std::printf("destroying the container (fails so far: %d)...\n", fails);
        std::fflush(stdout);
    }  // ~DelayedObjects -> std::terminate
    std::printf("container destroyed\n");
    return fails ? 1 : 0;
}
