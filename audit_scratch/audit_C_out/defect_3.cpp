// C19: move ASSIGNMENT of a TripWireTrigger silently drops the target's duty
// to trip its own line.  operator=(TripWireTrigger&&) is defaulted, i.e. it is
// shared_ptr move assignment: the line the target was attached to is just
// released.  After `a = std::move(b)` every trigger object that was ever
// attached to line L1 has been destroyed / overwritten, yet the detectors on
// L1 report false forever (the guard that was supposed to signal "this scope
// is gone" is lost).
//
// build + run:
//   g++ -std=c++17 -g -I/tmp/audit_C -pthread /tmp/audit_C_out/defect_3.cpp -o /tmp/audit_C_d3 && /tmp/audit_C_d3
#include "gmlc/concurrency/TripWire.hpp"
#include <cstdio>
using namespace gmlc::concurrency;

int main()
{
    auto L1 = make_tripline();
    auto L2 = make_tripline();
    TripWireDetector d1(L1);
    TripWireDetector d2(L2);
    {
        TripWireTrigger a(L1);  // a must trip L1
        {
            TripWireTrigger b(L2);  // b must trip L2
            a = std::move(b);  // a takes over L2 ... and forgets L1
        }  // moved-from b destroyed: trips nothing (correct)
        std::printf("inner scope left: L1=%d L2=%d\n", d1.isTripped(), d2.isTripped());
    }  // a destroyed
    std::printf("all triggers destroyed: L1=%d L2=%d (use_count L1=%ld)\n",
                d1.isTripped(),
                d2.isTripped(),
                L1.use_count());
    if (!d1.isTripped()) {
        std::printf("FAIL: every trigger attached to L1 is gone but L1 was never tripped\n");
        return 1;
    }
    return 0;
}
