// C11: TriggerVariable::activate() is a non-atomic check-then-act.
// Two activators that race on an INACTIVE variable both pass the
// `if (activated.load()) return false;` test, both return true, and the slower
// one executes `triggered = false` AFTER the faster one has finished - even
// after a trigger() that followed the (first) activation has succeeded.  The
// successful trigger() is wiped out: trigger() returned true, nobody called
// reset(), yet isTriggered() is false, wait_for() times out and wait() blocks
// for ever; a waiter that was already blocked and is woken by that trigger()
// goes back to sleep if the late activator wins the race for triggerLock.
// No sequential order of {activate, activate, trigger} explains the outcome
// (activate on an active variable must return false and change nothing).
//
// The interleaving is forced deterministically: the demo interposes
// pthread_mutex_lock (only to PAUSE one thread just before it locks a mutex -
// a legal scheduling decision; the library is unchanged).
//
// build + run:
//   g++ -std=c++17 -g -I/tmp/audit_C -pthread /tmp/audit_C_out/defect_4.cpp -o /tmp/audit_C_d4 -ldl && /tmp/audit_C_d4
#ifndef _GNU_SOURCE
#define _GNU_SOURCE
#endif
#include <dlfcn.h>
#include <pthread.h>

#include "gmlc/concurrency/TriggerVariable.hpp"
#include <atomic>
#include <chrono>
#include <cstdio>
#include <thread>

static thread_local bool pauseAtNextLock = false;
static std::atomic<int> paused{0};
static std::atomic<int> resume{0};

extern "C" int pthread_mutex_lock(pthread_mutex_t* m)
{
    using fn = int (*)(pthread_mutex_t*);
    static fn real = reinterpret_cast<fn>(dlsym(RTLD_NEXT, "pthread_mutex_lock"));
    if (pauseAtNextLock) {
        pauseAtNextLock = false;
        paused.store(1);
        while (resume.load() == 0) {
            // busy wait: the thread is simply "not scheduled" here
        }
    }
    return real(m);
}

using gmlc::concurrency::TriggerVariable;
using namespace std::chrono_literals;

int main()
{
    std::setvbuf(stdout, nullptr, _IONBF, 0);
    TriggerVariable tv;  // inactive
    bool r2 = false;
    std::thread A2([&] {
        pauseAtNextLock = true;  // stop between the activated test and triggerLock
        r2 = tv.activate();
    });
    while (paused.load() == 0) {
        std::this_thread::yield();
    }
    // A2 has seen activated == false and is about to lock triggerLock
    bool r1 = tv.activate();  // complete activation by the main thread
    std::atomic<bool> wdone{false};
    std::thread W([&] {
        tv.wait();
        wdone = true;
    });
    std::this_thread::sleep_for(100ms);  // W is blocked in wait()
    bool t = tv.trigger();  // follows the activation, succeeds
    bool trigAfterTrigger = tv.isTriggered();
    resume.store(1);  // the late activator continues
    A2.join();
    std::printf("activate #1 -> %d, activate #2 (raced) -> %d, trigger -> %d, isTriggered right after trigger -> %d\n",
                r1, r2, t, trigAfterTrigger);
    bool active = tv.isActive();
    bool trig = tv.isTriggered();
    bool w = tv.wait_for(300ms);
    std::printf("after both activators returned: isActive=%d isTriggered=%d wait_for(300ms)=%d\n",
                active, trig, w);
    std::this_thread::sleep_for(200ms);
    std::printf("waiter that was blocked before trigger(): %s\n",
                wdone.load() ? "returned" : "STILL BLOCKED (woken, found triggered==false again)");
    int fails = 0;
    if (r1 && r2) {
        std::printf("FAIL: two activate() calls without a reset in between both returned true\n");
        ++fails;
    }
    if (t && (!trig || !w)) {
        std::printf("FAIL: trigger() succeeded after the activation and nobody reset, but the trigger is lost\n");
        ++fails;
    }
    tv.trigger();  // let W go in any case
    W.join();
    return fails ? 1 : 0;
}
