// C11: an activation "pulse" is invisible to threads blocked on activation.
// waitActivation()/wait_forActivation() wait on the LEVEL of `activated`
// (predicate `activated.load()`), not on the activation EVENT.  A successful
// activate() that is followed shortly by reset() (the normal end of a
// trigger cycle) notifies the blocked threads, but by the time they have
// re-acquired activeLock the flag is false again, so they go back to sleep:
//   * waitActivation() stays blocked although activate() returned true while it
//     was blocked (lost wake-up; the variable is NOT re-activated meanwhile),
//   * wait_forActivation(d) returns false although the activation happened
//     well inside its waiting period.
// No hooks are needed: on Linux the activator always wins the race for
// activeLock against the freshly woken waiter (200 of 200 runs here).
//
// build + run:
//   g++ -std=c++17 -O1 -g -I/tmp/audit_C -pthread /tmp/audit_C_out/defect_5.cpp -o /tmp/audit_C_d5 && /tmp/audit_C_d5
#include "gmlc/concurrency/TriggerVariable.hpp"
#include <atomic>
#include <chrono>
#include <cstdio>
#include <thread>
using gmlc::concurrency::TriggerVariable;
using namespace std::chrono_literals;

int main()
{
    int missedWait = 0;
    int missedTimed = 0;
    const int N = 50;
    for (int i = 0; i < N; ++i) {
        TriggerVariable tv;  // inactive
        std::atomic<int> st{0};
        std::atomic<int> timedResult{-1};
        std::thread W([&] {
            st = 1;
            tv.waitActivation();
            st = 2;
        });
        std::thread WT([&] { timedResult = tv.wait_forActivation(400ms) ? 1 : 0; });
        while (st.load() == 0) {
            std::this_thread::yield();
        }
        std::this_thread::sleep_for(20ms);  // both waiters are blocked now
        bool a = tv.activate();  // the awaited event: succeeds, notifies
        tv.reset();  // end of the cycle (triggers, then deactivates)
        if (!a) {
            std::printf("unexpected: activate returned false\n");
            return 2;
        }
        WT.join();  // returns after at most 400 ms
        if (timedResult.load() == 0) {
            ++missedTimed;
        }
        if (st.load() != 2) {
            ++missedWait;  // 400 ms after a successful activate() still blocked
        }
        tv.activate();  // release W for good
        W.join();
        tv.reset();
    }
    std::printf("waitActivation still blocked 400ms after a successful activate(): %d of %d\n",
                missedWait, N);
    std::printf("wait_forActivation(400ms) returned false although activate() succeeded 20ms into the wait: %d of %d\n",
                missedTimed, N);
    return (missedWait != 0 || missedTimed != 0) ? 1 : 0;
}
