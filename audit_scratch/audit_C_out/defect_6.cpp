// C17: stored objects are destroyed while mapLock is held, so an object whose
// destructor touches the holder again (look up a sibling, deregister a child,
// ask empty()) self-deadlocks the calling thread on the non-recursive mutex.
// The last reference is dropped under the lock in
//   * removeObject(name) / removeObject(predicate)   (objectMap.erase)
//   * addObject(name, obj[, type]) when the name is a DUPLICATE: map::emplace
//     has already moved `obj` into a node, finds the duplicate and destroys
//     the node - and with it the caller's only reference - under the lock.
// "Every operation is memory-safe for every sequence of calls / behaves as an
// atomic map": here a plain sequence of calls never returns (locking a
// std::mutex the thread already owns is undefined behaviour; glibc deadlocks).
//
// build + run (a watchdog turns the hang into exit code 3):
//   g++ -std=c++17 -g -I/tmp/audit_C -pthread /tmp/audit_C_out/defect_6.cpp -o /tmp/audit_C_d6 && /tmp/audit_C_d6
#include "gmlc/concurrency/SearchableObjectHolder.hpp"
#include <csignal>
#include <cstdio>
#include <cstring>
#include <unistd.h>
using gmlc::concurrency::SearchableObjectHolder;

struct Node;
using Holder = SearchableObjectHolder<Node>;
struct Node {
    Holder* holder;
    std::string child;
    Node(Holder* h, std::string c): holder(h), child(std::move(c)) {}
    ~Node()
    {
        // a parent takes its child out of the registry when it dies
        if (!child.empty()) {
            holder->removeObject(child);
        }
    }
};

static const char* stage = "";
static void onAlarm(int)
{
    const char msg[] = "FAIL: watchdog - call never returned (self-deadlock on mapLock) in stage: ";
    (void)!write(1, msg, sizeof(msg) - 1);
    (void)!write(1, stage, strlen(stage));
    (void)!write(1, "\n", 1);
    _exit(3);
}

int main(int argc, char** argv)
{
    std::signal(SIGALRM, onAlarm);
    alarm(3);
    Holder h;
    h.addObject("child", std::make_shared<Node>(&h, ""));
    h.addObject("parent", std::make_shared<Node>(&h, "child"));
    if (argc > 1) {
        stage = "removeObject(\"parent\")";
        h.removeObject("parent");  // ~Node runs under mapLock -> removeObject -> deadlock
    } else {
        stage = "addObject(duplicate name, only reference)";
        // refused as a duplicate; the refused object is destroyed under mapLock
        bool r = h.addObject("parent", std::make_shared<Node>(&h, "child"));
        std::printf("duplicate add -> %d\n", r);
    }
    std::printf("returned normally\n");
    h.removeObject("parent");
    h.removeObject("child");
    return 0;
}
