// C06 (build-time): deferred_guarded<T> cannot be instantiated at all for a
// move-only / non-copyable T, so none of modify_detach / modify_async /
// lock_shared is usable for such payloads.  load() is declared as
//     std::enable_if_t<std::is_copy_constructible<T>::value, T> load() const
// but load() is NOT a template, so the enable_if is evaluated when the CLASS is
// instantiated (member declarations are instantiated with the class) and is a
// hard error instead of SFINAE.  (ordered_guarded.hpp has the same line;
// guarded / shared_guarded accept move-only payloads.)
//
// build + run (the build is the demonstration; a correct library exits 0):
//   g++ -std=c++17 -I/tmp/audit_C -pthread /tmp/audit_C_out/defect_7.cpp -o /tmp/audit_C_d7 && /tmp/audit_C_d7
// observed: error: no type named 'type' in 'struct std::enable_if<false, std::unique_ptr<int> >'
//           required from 'class gmlc::libguarded::deferred_guarded<std::unique_ptr<int> >'
#include "gmlc/libguarded/deferred_guarded.hpp"
#include <memory>

int main()
{
    gmlc::libguarded::deferred_guarded<std::unique_ptr<int>> g(new int(3));
    g.modify_detach([](std::unique_ptr<int>& p) { ++*p; });
    auto f = g.modify_async([](std::unique_ptr<int>& p) { return ++*p; });
    return (f.get() == 5 && **g.lock_shared() == 5) ? 0 : 1;
}
