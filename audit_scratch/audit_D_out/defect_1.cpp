// Build + run:
//   g++ -std=c++17 -g -O1 -fsanitize=address -I/tmp/audit_D/gmlc /tmp/audit_D_out/defect_1.cpp -o /tmp/audit_D_defect_1 -pthread && /tmp/audit_D_defect_1
//
// Property C05: an element erased from an rcu_list must not be freed while a
// handle that was already in use when the erase happened is still alive.
//
// read_handle / write_handle::operator=(handle other) takes its argument BY
// VALUE and swaps.  For a self COPY assignment (h = h) the parameter is a
// copy of h, i.e. a fresh unregistered handle; after the swap h is the
// unregistered one and the temporary owns h's registration and releases it.
// So "h = h;" silently ends the read-side critical section of a live, in-use
// handle: every iterator obtained through h is unprotected although h is
// still alive, and the next short-lived handle reclaims erased elements under
// it.  (Self MOVE assignment is fine; only the copy form is broken.)
#include <libguarded/rcu_guarded.hpp>
#include <libguarded/rcu_list.hpp>
#include <cstdio>

using namespace gmlc::libguarded;

int main()
{
    rcu_guarded<rcu_list<int>> lst;
    {
        auto w = lst.lock_write();
        w->push_back(1);
        w->push_back(2);
        w->push_back(3);
    }

    auto reader = lst.lock_read();
    auto it = reader->begin();  // reader is registered and in use, it -> 1

    auto& alias = reader;
    reader = alias;  // self copy assignment: must be a no-op

    {
        auto w = lst.lock_write();
        w->erase(w->begin());  // erase element 1 while `reader` is alive
    }
    {
        auto s = lst.lock_read();  // short-lived handle: its release reclaims
        (void)s->begin();
    }

    // `reader` is still alive and was in use before the erase: the element
    // under `it` must still be there.
    int v = *it;  // heap-use-after-free
    ++it;
    std::printf("read %d then %d\n", v, *it);
    return 0;
}
