// Build + run:
//   g++ -std=c++17 -g -O1 -fsanitize=address -I/tmp/audit_E /tmp/audit_E_out/defect_1.cpp -o /tmp/audit_E_defect_1 -pthread && /tmp/audit_E_defect_1
//
// SearchableObjectHolder::addObject(name, obj, type) and copyObject(from, to)
// are not all-or-nothing when the copy of the type tag Y throws: the object is
// already stored in objectMap when the tag vector is built, the exception
// propagates to the caller, and the holder is left with an entry that the
// caller was told (by the exception) was not added, without its tag.
#include "gmlc/concurrency/SearchableObjectHolder.hpp"
#include <cstdio>
#include <stdexcept>

struct Tag {
    int v{0};
    static int countdown;  // throw when this reaches 0
    Tag() = default;
    explicit Tag(int val): v(val) {}
    Tag(const Tag& o): v(o.v)
    {
        if (countdown > 0 && --countdown == 0) {
            throw std::runtime_error("tag copy");
        }
    }
    Tag& operator=(const Tag&) = default;
    bool operator==(const Tag& o) const { return v == o.v; }
};
int Tag::countdown = 0;

int main()
{
    int failures = 0;
    // ---- addObject(name, obj, type)
    for (int k = 1; k <= 4; ++k) {
        gmlc::concurrency::SearchableObjectHolder<int, Tag> holder;
        auto obj = std::make_shared<int>(5);
        Tag t(7);
        bool threw = false;
        bool res = false;
        Tag::countdown = k;
        try {
            res = holder.addObject("a", obj, t);
        }
        catch (const std::runtime_error&) {
            threw = true;
        }
        Tag::countdown = 0;
        auto found = holder.findObject("a");
        bool tagged = holder.checkObjectType("a", Tag(7));
        std::printf("addObject: copy #%d throws: threw=%d res=%d stored=%d tagged=%d\n",
                    k, threw, res, found ? 1 : 0, tagged ? 1 : 0);
        if (threw && found) {
            // the add "failed" with an exception but the object is in the map
            // without the tag, and can not be added again
            bool again = holder.addObject("a", obj, t);
            std::printf("   -> half-modified: object stored without tag; retry returns %d; "
                        "findObject(pred,type) finds it: %d\n",
                        again,
                        holder.findObject([](const auto&) { return true; }, Tag(7)) ? 1 : 0);
            ++failures;
        }
        holder.removeObject("a");
    }
    // ---- copyObject(from, to)
    for (int k = 1; k <= 3; ++k) {
        gmlc::concurrency::SearchableObjectHolder<int, Tag> holder;
        auto obj = std::make_shared<int>(5);
        holder.addObject("a", obj, Tag(7));
        bool threw = false;
        Tag::countdown = k;
        try {
            holder.copyObject("a", "b");
        }
        catch (const std::runtime_error&) {
            threw = true;
        }
        Tag::countdown = 0;
        auto found = holder.findObject("b");
        bool tagged = holder.checkObjectType("b", Tag(7));
        std::printf("copyObject: copy #%d throws: threw=%d stored=%d tagged=%d\n",
                    k, threw, found ? 1 : 0, tagged ? 1 : 0);
        if (threw && found && !tagged) {
            std::printf("   -> half-modified: alias 'b' exists without the tags of 'a'\n");
            ++failures;
        }
        holder.removeObject("a");
        holder.removeObject("b");
    }
    if (failures != 0) {
        std::printf("FAIL: %d half-modified states\n", failures);
        return 1;
    }
    std::printf("ok\n");
    return 0;
}
