// Build + run:
//   g++ -std=c++17 -g -O0 -I/tmp/audit_E /tmp/audit_E_out/defect_1_alloc.cpp -o /tmp/audit_E_defect_1_alloc -pthread && /tmp/audit_E_defect_1_alloc
// Same half-modified state as defect_1.cpp with the DEFAULT tag type (int): std::bad_alloc from building the tag vector / typeMap node
// after objectMap.emplace succeeded (allocation-failure sweep: the k-th operator new inside the call throws).
#include "gmlc/concurrency/SearchableObjectHolder.hpp"
#include <cstdio>
#include <cstdlib>
#include <new>
static long failAt = -1, allocCount = 0;
void* operator new(std::size_t sz){ if (failAt>0){ if(++allocCount==failAt){failAt=-1; throw std::bad_alloc();}} void*p=std::malloc(sz?sz:1); if(!p) throw std::bad_alloc(); return p;}
void operator delete(void* p) noexcept { std::free(p);} void operator delete(void* p, std::size_t) noexcept { std::free(p);}
int main(){
  int bad=0;
  for(long k=1;k<20;++k){
    gmlc::concurrency::SearchableObjectHolder<int> h; auto o=std::make_shared<int>(1);
    bool threw=false; allocCount=0; failAt=k;
    try{ h.addObject("a",o,3);}catch(const std::bad_alloc&){threw=true;} failAt=-1;
    if(!threw){break;}
    bool st= h.findObject("a")!=nullptr; bool tg=h.checkObjectType("a",3);
    std::printf("add k=%ld stored=%d tagged=%d\n",k,st,tg); if(st&&!tg) ++bad; h.removeObject("a");
  }
  for(long k=1;k<20;++k){
    gmlc::concurrency::SearchableObjectHolder<int> h; auto o=std::make_shared<int>(1); h.addObject("a",o,3);
    bool threw=false; allocCount=0; failAt=k;
    try{ h.copyObject("a","b");}catch(const std::bad_alloc&){threw=true;} failAt=-1;
    if(!threw){break;}
    bool st= h.findObject("b")!=nullptr; bool tg=h.checkObjectType("b",3);
    std::printf("copy k=%ld stored=%d tagged=%d\n",k,st,tg); if(st&&!tg) ++bad; h.removeObject("a"); h.removeObject("b");
  }
  return bad?1:0;
}
