// Build + run:
//   g++ -std=c++17 -g -O1 -I/tmp/audit_E /tmp/audit_E_out/defect_2.cpp -o /tmp/audit_E_defect_2 -pthread && /tmp/audit_E_defect_2
//
// DelayedDestructor::destroyObjects() copies the user's pre-destruction
// callback (auto deleteFunc = callBeforeDeleteFunction;) while it still holds
// destructionLock and after the reaped objects were moved out of the container
// into the local vector `ecall`.  If that copy throws (user functor with a
// throwing copy constructor, or bad_alloc for a functor with a large capture),
// stack unwinding destroys `ecall` BEFORE the unique_lock: the element
// destructors run under the container's internal lock (and no callback runs
// for any of them, and the exception is swallowed).  An element destructor
// that re-enters the container (size(), addObjectsToBeDestroyed()) then
// self-deadlocks.
#include "gmlc/concurrency/DelayedDestructor.hpp"
#include <atomic>
#include <cstdio>
#include <future>
#include <stdexcept>

using DD = gmlc::concurrency::DelayedDestructor<struct Obj>;
static DD* container = nullptr;
static std::atomic<int> destroyedUnderLock{0};
static std::atomic<int> destroyed{0};
static std::atomic<int> callbacks{0};

struct Obj {
    ~Obj()
    {
        ++destroyed;
        // probe from another thread whether the container lock is free while
        // this destructor runs (a direct size() call would simply hang)
        auto probe = std::async(std::launch::async, [] {
            return container->destroyObjects();  // timed: returns size_t(-1) if the lock is held
        });
        if (probe.get() == static_cast<std::size_t>(-1)) {
            ++destroyedUnderLock;
        }
    }
};

struct Callback {
    static bool throwOnCopy;
    Callback() = default;
    Callback(const Callback&)
    {
        if (throwOnCopy) {
            throw std::runtime_error("callback copy");
        }
    }
    Callback(Callback&&) noexcept {}
    void operator()(std::shared_ptr<Obj>&) const { ++callbacks; }
};
bool Callback::throwOnCopy = false;

int main()
{
    {
        DD dd{std::function<void(std::shared_ptr<Obj>&)>(Callback{})};
        container = &dd;
        dd.addObjectsToBeDestroyed(std::make_shared<Obj>());
        dd.addObjectsToBeDestroyed(std::make_shared<Obj>());
        Callback::throwOnCopy = true;
        auto res = dd.destroyObjects();
        Callback::throwOnCopy = false;
        std::printf("destroyObjects returned %zu, destroyed=%d callbacks=%d destroyedUnderLock=%d\n",
                    res, destroyed.load(), callbacks.load(), destroyedUnderLock.load());
    }
    if (destroyedUnderLock.load() != 0) {
        std::printf("FAIL: %d element destructors ran while destructionLock was held\n",
                    destroyedUnderLock.load());
        return 1;
    }
    std::printf("ok\n");
    return 0;
}
