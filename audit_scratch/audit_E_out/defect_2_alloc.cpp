// Build + run:
//   g++ -std=c++17 -g -O0 -I/tmp/audit_E /tmp/audit_E_out/defect_2_alloc.cpp -o /tmp/audit_E_defect_2_alloc -pthread && /tmp/audit_E_defect_2_alloc
// Same defect as defect_2.cpp triggered by std::bad_alloc: copying a std::function whose target does not fit the small buffer allocates;
// allocation-failure sweep over destroyObjects(): at k=5 (the std::function copy) the element destructors run under destructionLock and no callback runs.
#include "gmlc/concurrency/DelayedDestructor.hpp"
#include <cstdio>
#include <cstdlib>
#include <future>
#include <atomic>
#include <new>
static long failAt = -1, allocCount = 0;
void* operator new(std::size_t sz){ if (failAt>0){ if(++allocCount==failAt){failAt=-1; throw std::bad_alloc();}} void*p=std::malloc(sz?sz:1); if(!p) throw std::bad_alloc(); return p;}
void operator delete(void* p) noexcept { std::free(p);} void operator delete(void* p, std::size_t) noexcept { std::free(p);}
struct Obj; using DD=gmlc::concurrency::DelayedDestructor<Obj>;
static DD* cont; static std::atomic<int> underLock{0}, destroyed{0}, cbs{0};
struct Obj{ ~Obj(){ ++destroyed; long save=failAt; failAt=-1; auto pr=std::async(std::launch::async,[]{return cont->destroyObjects();}); if(pr.get()==size_t(-1)) ++underLock; failAt=save; } };
int main(){
  int bad=0;
  for(long k=1;k<20;++k){
    long a=1,b=2,c=3; // capture > 16 bytes so std::function stores the functor on the heap
    DD dd{[a,b,c](std::shared_ptr<Obj>&){ ++cbs; (void)(a+b+c); }};
    cont=&dd; underLock=0; destroyed=0; cbs=0;
    dd.addObjectsToBeDestroyed(std::make_shared<Obj>());
    dd.addObjectsToBeDestroyed(std::make_shared<Obj>());
    allocCount=0; failAt=k;
    auto r=dd.destroyObjects();
    bool fired = (failAt==-1); failAt=-1;
    std::printf("k=%ld fired=%d ret=%zd destroyed=%d callbacks=%d underLock=%d size=%zu\n",k,fired,(ssize_t)r,destroyed.load(),cbs.load(),underLock.load(),dd.size());
    if(underLock) ++bad;
    if(!fired) break;
  }
  return bad?1:0;
}
