// Build + run:
//   g++ -std=c++17 -g -O0 -I/tmp/audit_E /tmp/audit_E_out/defect_3.cpp -o /tmp/audit_E_defect_3 -pthread && /tmp/audit_E_defect_3
//
// DelayedObjects::setDelayedValue / fulfillAllPromises give the promise its
// value first and only then insert into the "used" map
//     fnd->second.set_value(val);
//     usedPromiseByInteger[index] = std::move(fnd->second);   // allocates a node
//     promiseByInteger.erase(fnd);
// If the node allocation throws std::bad_alloc the already satisfied promise
// stays in the pending map: the future is ready, but isCompleted() says no,
// a later fulfillAllPromises() throws std::future_error
// (promise_already_satisfied) instead of being a no-op for that key and leaves
// the other pending futures unfulfilled, and ~DelayedObjects calls set_value
// on it again, which throws out of a destructor -> std::terminate.
// (commit 4c023d3 fixed the same inconsistency for a throwing copy of the
// value, but not for the allocation between the two steps.)
#include "gmlc/concurrency/DelayedObjects.hpp"
#include <atomic>
#include <cstdio>
#include <cstdlib>
#include <new>

static long failAt = -1;  // fail the failAt-th allocation from now (1-based), -1: never
static long allocCount = 0;

void* operator new(std::size_t sz)
{
    if (failAt > 0) {
        ++allocCount;
        if (allocCount == failAt) {
            failAt = -1;
            throw std::bad_alloc();
        }
    }
    void* p = std::malloc(sz ? sz : 1);
    if (p == nullptr) {
        throw std::bad_alloc();
    }
    return p;
}
void operator delete(void* p) noexcept { std::free(p); }
void operator delete(void* p, std::size_t) noexcept { std::free(p); }

static bool ready(std::future<int>& f)
{
    return f.wait_for(std::chrono::seconds(0)) == std::future_status::ready;
}

int main()
{
    int bad = 0;
    for (long k = 1; k < 10; ++k) {
        auto* d = new gmlc::concurrency::DelayedObjects<int>();
        auto f1 = d->getFuture(1);
        auto f2 = d->getFuture(2);
        bool threw = false;
        allocCount = 0;
        failAt = k;
        try {
            d->setDelayedValue(1, 42);
        }
        catch (const std::bad_alloc&) {
            threw = true;
        }
        failAt = -1;
        if (!threw) {
            std::printf("k=%ld: no allocation left to fail, sweep finished\n", k);
            delete d;
            break;
        }
        bool r1 = ready(f1);
        bool completed = d->isCompleted(1);
        std::printf("k=%ld: setDelayedValue threw bad_alloc: future ready=%d isCompleted=%d isRecognized=%d\n",
                    k, r1, completed, d->isRecognized(1));
        if (r1 != completed) {
            ++bad;
            bool threw2 = false;
            try {
                d->fulfillAllPromises(7);
            }
            catch (const std::future_error& e) {
                threw2 = true;
                std::printf("   fulfillAllPromises threw future_error: %s; future 2 ready=%d\n",
                            e.what(), ready(f2));
            }
            if (!threw2) {
                std::printf("   fulfillAllPromises ok\n");
            }
            std::printf("   destroying the container now (set_value on the satisfied promise in a destructor)...\n");
            std::fflush(stdout);
            delete d;  // std::terminate
            std::printf("   survived destruction\n");
        } else {
            delete d;
        }
    }
    return bad != 0 ? 1 : 0;
}
