// Build + run:
//   g++ -std=c++17 -g -O1 -fsanitize=address -I/tmp/audit_E /tmp/audit_E_out/defect_4.cpp -o /tmp/audit_E_defect_4 -pthread && /tmp/audit_E_defect_4
//
// DelayedDestructor::destroyObjects() (both classes) decides which entries to
// take out of the container by RAW POINTER + use_count()==2, not by identity of
// the entry.  If two queued entries have the same stored pointer but different
// control blocks (aliasing constructor, or the usual "no-op deleter around a
// static/stack object" idiom), reaping the one whose use_count is 1 also
// silently drops the other one, although that one is still owned elsewhere
// (use_count 2 = container + external owner): it is not handed to the
// callback, it disappears from size(), and when its external owner lets go
// later its deleter runs on that owner's thread without the container (and the
// pre-destruction callback) ever seeing it again.
#include "gmlc/concurrency/DelayedDestructor.hpp"
#include <cstdio>

struct Obj { int v{0}; };
static int deleterRuns = 0;
static int callbacks = 0;

template<class DD>
int run(const char* label)
{
    static Obj shared;  // one object, handed out through independent shared_ptrs
    deleterRuns = 0;
    callbacks = 0;
    int rc = 0;
    {
        DD dd([](std::shared_ptr<Obj>&) { ++callbacks; });
        auto mk = [] { return std::shared_ptr<Obj>(&shared, [](Obj*) { ++deleterRuns; }); };
        auto external = mk();  // still owned by somebody else
        dd.addObjectsToBeDestroyed(mk());  // entry 1: only the container owns it
        dd.addObjectsToBeDestroyed(external);  // entry 2: container + external
        auto left = dd.destroyObjects();
        std::printf("%s: after destroyObjects: returned %zu size()=%zu callbacks=%d deleterRuns=%d external.use_count=%ld\n",
                    label, left, static_cast<std::size_t>(dd.size()), callbacks, deleterRuns, external.use_count());
        if (dd.size() != 1U || external.use_count() != 2) {
            std::printf("%s: FAIL: entry 2 (still owned elsewhere) was dropped from the container\n", label);
            rc = 1;
        }
        external.reset();  // the last other owner lets go
        dd.destroyObjects();
        std::printf("%s: after the owner let go: callbacks=%d deleterRuns=%d (expected 2 and 2)\n",
                    label, callbacks, deleterRuns);
        if (callbacks != 2) {
            std::printf("%s: FAIL: no pre-destruction callback for entry 2\n", label);
            rc = 1;
        }
    }
    return rc;
}

int main()
{
    int rc = run<gmlc::concurrency::DelayedDestructor<Obj>>("locked");
    rc += run<gmlc::concurrency::DelayedDestructorSingleThread<Obj>>("single");
    return rc;
}
