// Build + run (unchanged library in /tmp/audit_F):
//   g++ -std=c++17 -O0 -g -I/tmp/audit_F /tmp/audit_F_out/defect_1.cpp -o /tmp/audit_F_out/defect_1 -pthread && /tmp/audit_F_out/defect_1 ; echo "exit=$?"
//
// guarded_opt<T>(bool) and shared_guarded_opt<T>(bool = true) leave the wrapped
// object DEFAULT-initialised (the constructors only initialise `enabled`), so
// for scalar / trivially constructible payloads the very first load() / *lock()
// reads an indeterminate value.  Every other wrapper (guarded<T>(),
// shared_guarded<T>(), ordered_guarded<T>(), atomic_guarded<T>(), ...) value-
// initialises the payload through `m_obj(std::forward<Us>(data)...)`, and so do
// the (bool, Us&&...) constructors of the _opt classes themselves.
//
// The program constructs each wrapper on storage that was pre-filled with 0xAB
// and reads the payload through the public API straight after construction.
// Expected (what guarded<int>/shared_guarded<int> give): 0.
#include "gmlc/libguarded/guarded.hpp"
#include "gmlc/libguarded/guarded_opt.hpp"
#include "gmlc/libguarded/shared_guarded.hpp"
#include "gmlc/libguarded/shared_guarded_opt.hpp"

#include <cstdio>
#include <cstring>
#include <new>

using namespace gmlc::libguarded;

template<class W, class Reader, class... A>
static int probe(Reader rd, A... a)
{
    alignas(W) static unsigned char buf[sizeof(W)];
    std::memset(buf, 0xAB, sizeof(buf));
    W* w = new (buf) W(a...);
    int v = rd(*w);
    w->~W();
    return v;
}

int main()
{
    auto viaLock = [](auto& w) { return *w.lock(); };
    auto viaLoad = [](auto& w) { return w.load(); };
    auto viaShared = [](auto& w) { return *w.lock_shared(); };

    int ref1 = probe<guarded<int>>(viaLoad);  // 0
    int ref2 = probe<shared_guarded<int>>(viaShared);  // 0
    int ref3 = probe<guarded_opt<int>>(viaLoad, true, 0);  // 0 (explicit value)

    int bad1 = probe<guarded_opt<int>>(viaLoad, true);
    int bad2 = probe<guarded_opt<int>>(viaLock, false);
    int bad3 = probe<shared_guarded_opt<int>>(viaShared);  // default ctor
    int bad4 = probe<shared_guarded_opt<int>>(viaLock, false);

    std::printf("reference wrappers : %#x %#x %#x\n", ref1, ref2, ref3);
    std::printf("guarded_opt<int>(true).load()            = %#x\n", bad1);
    std::printf("*guarded_opt<int>(false).lock()          = %#x\n", bad2);
    std::printf("*shared_guarded_opt<int>().lock_shared() = %#x\n", bad3);
    std::printf("*shared_guarded_opt<int>(false).lock()   = %#x\n", bad4);

    int bad = 0;
    bad += (bad1 != 0) + (bad2 != 0) + (bad3 != 0) + (bad4 != 0);
    if (ref1 != 0 || ref2 != 0 || ref3 != 0) {
        std::printf("unexpected: reference wrappers not value-initialised\n");
        return 2;
    }
    if (bad != 0) {
        std::printf(
            "DEFECT: %d of 4 _opt wrappers expose an uninitialised payload\n",
            bad);
        return 1;
    }
    std::printf("ok\n");
    return 0;
}
