#include "concurrency/DelayedObjects.hpp"
#include <iostream>
int main(){ gmlc::concurrency::DelayedObjects<std::string> o; std::string k(40,'k'); auto f=o.getFuture(k); std::string k2=k;
 o.setDelayedValue(k2, std::move(k2)); std::cout<<(f.get()==k)<<" completed="<<o.isCompleted(k)<<" recognized="<<o.isRecognized(k)<<" empty-recognized="<<o.isRecognized("")<<"\n"; }
