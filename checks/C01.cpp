// C01 — exclusive handles and whole-object operations are mutually exclusive.
#include "guard_round.hpp"
using namespace gc;

int main(int argc, char** argv)
{
    vrf::init(argc, argv, "C01");
    // exclusive operations only (ordered_guarded::load is shared and belongs to C02, but its windows are compatible: reads)
    const uint32_t allowed = (1u << LOCK) | (1u << TRY) | (1u << TRY_FOR) | (1u << TRY_UNTIL) | (1u << LOAD) | (1u << STORE) | (1u << ASSIGN) |
        (1u << MODIFY) | (1u << MODIFY_RET) | (1u << CAST);
    for (long r = 0; r < vrf::cfg.rounds; r++) {
        if (!vrf::want_round(r)) continue;
        vrf::Round R(r);
        int combo = static_cast<int>((static_cast<uint64_t>(r) + static_cast<uint64_t>(vrf::cfg.proc) * 7) % 20);
        int fam = combo / 4, mut = combo % 4;
        Program P = gen_program(R.rng, fam, mut, allowed);
        bool excl = (fam != F_ORDERED);  // ordered_guarded::load takes the shared lock: two loads may overlap
        RoundOut o = dispatch<RunRound>(fam, mut, R, P, excl, false);
        vrf::note(vrf::mixhash(vrf::mixhash(P.hash(), o.sched_sig), o.outcome_sig), o.contended);
        vrf::count(std::string("rounds_") + FAMN[fam] + "<" + MUTN[mut] + ">");
        if (o.contended) vrf::count("rounds_with_lock_contention");
        if (P.has_store()) vrf::count("rounds_with_store_or_assign");
        if (r % 5000 == 0) vrf::sample(vrf::res.cur_program);
    }
    vrf::finish();
}
