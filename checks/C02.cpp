// C02 — readers and writers never overlap; readers can share.
#include "guard_round.hpp"
using namespace gc;

int main(int argc, char** argv)
{
    vrf::init(argc, argv, "C02");
    const uint32_t allowed = (1u << NOP) - 1;  // every operation the wrapper offers
    static const int fams[] = {F_SHARED, F_SHARED_OPT, F_ORDERED, F_DEFERRED};
    uint64_t shared_rounds = 0, rv_rounds = 0;
    for (long r = 0; r < vrf::cfg.rounds; r++) {
        if (!vrf::want_round(r)) continue;
        vrf::Round R(r);
        int combo = static_cast<int>((static_cast<uint64_t>(r) + static_cast<uint64_t>(vrf::cfg.proc) * 5) % 16);
        int fam = fams[combo / 4], mut = combo % 4;
        bool shared_capable = (mut >= 2);
        bool rendezvous = shared_capable && R.rng.chance(6);
        Program P = gen_program(R.rng, fam, mut, allowed);
        if (rendezvous) {
            P.scripts.clear();
            static const int rv_forms[] = {LOCK_SH, CONST_LOCK, TRY_SH, TRY_SH_FOR, TRY_SH_UNTIL, READ, READ_RET};
            for (uint32_t t = 1; t <= 2; t++) {
                int f;
                do {
                    f = rv_forms[R.rng.below(7)];
                } while (!supported(fam, mut == 3, f));
                P.scripts.push_back({POp{f, t, 0, 50000}});
            }
        }
        RoundOut o = dispatch<RunRound>(fam, mut, R, P, false, rendezvous);
        if (rendezvous) {
            // the round terminating is the verdict (otherwise: deadlock/livelock report); both were inside together
            if (o.max_readers < 2) vrf::violation("oracle:readers_could_not_share", "{}");
            rv_rounds++;
            vrf::count("rendezvous_rounds_completed");
            vrf::note(vrf::mixhash(P.hash(), o.sched_sig), true);
            continue;
        }
        if (!shared_capable && o.max_readers >= 2)
            vrf::violation("oracle:two_readers_inside_on_exclusive_mutex", "{\"max_readers\":" + std::to_string(o.max_readers) + "}");
        if (shared_capable && o.max_readers >= 2) {
            shared_rounds++;
            vrf::count("rounds_with_two_or_more_readers_inside");
        }
        vrf::note(vrf::mixhash(vrf::mixhash(P.hash(), o.sched_sig), o.outcome_sig), o.contended || o.max_readers >= 2);
        vrf::count(std::string("rounds_") + FAMN[fam] + "<" + MUTN[mut] + ">");
        if (o.contended) vrf::count("rounds_with_lock_contention");
        if (r % 5000 == 1) vrf::sample(vrf::res.cur_program);
    }
    vrf::threshold("rounds_with_two_or_more_readers_inside", shared_rounds, 1);
    vrf::threshold("rendezvous_rounds_completed", rv_rounds, 1);
    vrf::finish();
}
