// C03 — lr_guarded readers see only complete, current states.
#include "all_headers.hpp"
#include "vrf.hpp"
using namespace gmlc::libguarded;
using vrf::Cell;
using vrf::Win;

struct ReadRec {
    int thread;
    int form;
    uint64_t call, ret;
    std::vector<uint32_t> seen;
};
struct ModRec {
    int thread;
    uint32_t id;
    uint64_t call, ret;
    int throw_at;  // 0: functor does not throw; 1 / 2: it throws in its first / second application
};
struct Boom {
    uint32_t id;
};
struct BoomStd: public std::runtime_error, public Boom {  // same fault, derived from std::exception
    explicit BoomStd(uint32_t i): std::runtime_error("boom"), Boom{i} {}
};
struct Act {
    char kind;  // M modify, R read
    int form;   // R: 0 lock_shared 1 try 2 try_for 3 try_until
    int hold;
    uint32_t id;
    int throw_at = 0;
};

int main(int argc, char** argv)
{
    vrf::init(argc, argv, "C03");
    for (long r = 0; r < vrf::cfg.rounds; r++) {
        if (!vrf::want_round(r)) continue;
        vrf::Round R(r);
        auto& rng = R.rng;
        int nw = static_cast<int>(rng.range(1, 3)), nr = static_cast<int>(rng.range(1, 4));
        if (nw + nr > 6) nr = 6 - nw;
        std::vector<std::vector<Act>> scripts;
        uint32_t id = 1;
        for (int t = 0; t < nw; t++) {
            std::vector<Act> sc;
            int n = static_cast<int>(rng.range(1, 3));
            for (int i = 0; i < n && id <= 8; i++) {
                sc.push_back(Act{'M', 0, static_cast<int>(rng.below(3)), id++, rng.chance(15) ? static_cast<int>(rng.range(1, 2)) : 0});
                if (rng.chance(25)) sc.push_back(Act{'R', static_cast<int>(rng.below(4)), static_cast<int>(rng.below(3)), 0});
            }
            scripts.push_back(sc);
        }
        for (int t = 0; t < nr; t++) {
            std::vector<Act> sc;
            int n = static_cast<int>(rng.range(1, 4));
            for (int i = 0; i < n; i++) sc.push_back(Act{'R', static_cast<int>(rng.below(4)), static_cast<int>(rng.below(6)), 0});
            scripts.push_back(sc);
        }
        std::string pj = "{\"writers\":" + std::to_string(nw) + ",\"readers\":" + std::to_string(nr) + ",\"threads\":[";
        for (size_t t = 0; t < scripts.size(); t++) {
            if (t) pj += ",";
            pj += vrf::jarr(scripts[t].begin(), scripts[t].end(), [](const Act& a) {
                return std::string("{\"k\":\"") + a.kind + "\",\"form\":" + std::to_string(a.form) + ",\"hold\":" + std::to_string(a.hold) + ",\"id\":" + std::to_string(a.id) + ",\"throw_at\":" + std::to_string(a.throw_at) + "}";
            });
        }
        pj += "]}";
        R.program(pj);
        // constructed from a non-empty initial value: both internal copies must start out equal to it
        Cell initial_value;
        initial_value.set_raw(200);
        // (given as an lvalue or as an rvalue: the constructor must build BOTH copies from it)
        vrf::Hostile<lr_guarded<Cell, vrf::mutex_t>> lr_storage(static_cast<uint64_t>(r) / 2);  // dirty storage: see m60b
        auto& lr = (r % 2) ? lr_storage.emplace(std::move(initial_value)) : lr_storage.emplace(initial_value);
        auto strip_initial = [](std::vector<uint32_t>& v, const char* where) {
            if (v.empty() || v[0] != 200) vrf::violation("oracle:initial_value_missing", std::string("{\"where\":\"") + where + "\",\"log\":" + vrf::jnums(v) + "}");
            v.erase(v.begin());
        };
        std::vector<ReadRec> reads[vrf::MAXT];
        std::vector<ModRec> mods[vrf::MAXT];
        std::atomic<uint64_t> functor_calls{0};
        for (size_t t = 0; t < scripts.size(); t++) {
            R.spawn([&, t] {
                for (const Act& a : scripts[t]) {
                    if (a.kind == 'M') {
                        ModRec m{static_cast<int>(t), a.id, vrf::now(), 0, a.throw_at};
                        int invocation = 0;
                        bool caught = false;
                        try {
                            uint32_t value_to_append = a.id;
                            auto body = [&](Cell& c) {
                                Win w(c, true);
                                vrf::tl_vt_label = static_cast<int>(a.id);
                                c.check("functor");
                                for (int i = 0; i < a.hold; i++) vrf::user_point();
                                if (++invocation == a.throw_at) {  // 1st: rolled back, 2nd: completed from the other copy
                                    if (a.id % 2) throw BoomStd(a.id);
                                    throw Boom{a.id};
                                }
                                c.append_raw(value_to_append);
                                functor_calls.fetch_add(1, std::memory_order_relaxed);
                            };
                            // a callable that keeps the modification reproducible the way users of a twice-applied functor do:
                            // what it decides in its first application is remembered IN the callable (by-value state) and
                            // replayed in the second one. A second application that starts from a pristine copy of the
                            // callable decides anew - and the two copies of the object part company.
                            int decisions = 0;
                            auto memoizing = [remembered = 0u, &decisions, &value_to_append, &body, &a](Cell& c) mutable {
                                if (remembered == 0) remembered = (decisions++ == 0) ? a.id : a.id + 100;
                                value_to_append = remembered;
                                body(c);
                            };
                            // the callable reaches modify() as a plain lambda, as an rvalue of a value-category-sensitive
                            // functor, or as an lvalue of one (which the caller may use again afterwards)
                            // a callable whose result modify() has no use for: whatever it returns (here something that converts
                            // to false), it was applied, and it is applied to both copies
                            auto returning = [&body](Cell& c) -> int {
                                body(c);
                                return 0;
                            };
                            if (a.id % 5 == 4) lr.modify(returning);
                            else if (a.id % 4 == 3) lr.modify(memoizing);
                            else if (a.id % 3 == 0) lr.modify(body);
                            else if (a.id % 3 == 1) lr.modify(vrf::one_shot(body));
                            else {
                                auto fn = vrf::one_shot(body);
                                try {
                                    lr.modify(fn);
                                } catch (...) {
                                    vrf::still_usable(fn);
                                    throw;
                                }
                                vrf::still_usable(fn);
                            }
                        }
                        catch (const Boom&) {
                            caught = true;
                        }
                        if (caught != (a.throw_at != 0)) vrf::violation("oracle:functor_exception_not_propagated", "{\"id\":" + std::to_string(a.id) + "}");
                        m.ret = vrf::now();
                        mods[t].push_back(m);
                    } else {
                        ReadRec rr{static_cast<int>(t), a.form, vrf::now(), 0, {}};
                        {
                            auto h = a.form == 0 ? lr.lock_shared() :
                                a.form == 1    ? lr.try_lock_shared() :
                                a.form == 2    ? lr.try_lock_shared_for(std::chrono::microseconds(10)) :
                                                 lr.try_lock_shared_until(std::chrono::steady_clock::now() + std::chrono::microseconds(10));
                            if (!h) vrf::violation("oracle:read_handle_null", "{\"form\":" + std::to_string(a.form) + "}");
                            // the shared handle is a std::unique_ptr with a releasing deleter: besides * and -> it is used the
                            // ways such a pointer is - get(), moved into another handle, or turned into a std::shared_ptr whose
                            // last copy ends the read
                            std::shared_ptr<const Cell> sp, sp2;
                            std::unique_ptr<decltype(h)> h2;  // (the handle type has no move assignment: its deleter holds a reference)
                            const Cell* pc = nullptr;
                            switch ((a.hold + static_cast<int>(t)) % 4) {
                                case 1:
                                    sp = std::move(h);
                                    sp2 = sp;
                                    sp.reset();
                                    pc = sp2.get();
                                    break;
                                case 2:
                                    h2.reset(new decltype(h)(std::move(h)));
                                    if (h) vrf::violation("oracle:moved_from_shared_handle_not_null", "{}");
                                    pc = h2->get();
                                    break;
                                case 3: pc = h.get(); break;
                                default: pc = &*h; break;
                            }
                            struct View {
                                const Cell* p;
                                const Cell* operator->() const { return p; }
                                const Cell& operator*() const { return *p; }
                            } hv{pc};
                            Win w(*hv, false);
                            vrf::tl_vt_label = -static_cast<int>(t) - 1;
                            hv->check("reader");
                            rr.seen = hv->log();
                            strip_initial(rr.seen, "reader");
                            for (int i = 0; i < a.hold; i++) {
                                if (i % 2) vrf::hyield();
                                else vrf::user_point();
                            }
                            hv->check("reader (2)");
                            {
                                auto again = hv->log();
                                strip_initial(again, "reader (2)");
                                if (again != rr.seen) vrf::violation("oracle:object_changed_under_shared_handle", "{\"seen\":" + vrf::jnums(rr.seen) + "}");
                            }
                        }
                        rr.ret = vrf::now();
                        reads[t].push_back(std::move(rr));
                    }
                }
            });
        }
        R.run();
        // final state: two reads separated by a no-op modify look at both copies
        std::vector<uint32_t> fa, fb;
        vrf::run_checked(r, [&] {
            {
                auto h = lr.lock_shared();
                h->check("final a");
                fa = h->log();
                strip_initial(fa, "final a");
            }
            lr.modify([](Cell& c) {
                Win w(c, true);
                c.check("noop");
            });
            {
                auto h = lr.lock_shared();
                h->check("final b");
                fb = h->log();
                strip_initial(fb, "final b");
            }
        });
        if (fa != fb) vrf::violation("oracle:two_copies_differ_at_quiescence", "{\"a\":" + vrf::jnums(fa) + ",\"b\":" + vrf::jnums(fb) + "}");
        if (vrf::global_held_count() != 0) vrf::violation("oracle:lock_leaked_at_quiescence", "{}");
        std::vector<const ModRec*> allm;
        for (auto& v : mods)
            for (auto& m : v) allm.push_back(&m);
        std::map<uint32_t, size_t> pos;
        for (size_t i = 0; i < fa.size(); i++) {
            if (pos.count(fa[i])) vrf::violation("oracle:update_applied_twice", "{\"final\":" + vrf::jnums(fa) + "}");
            pos[fa[i]] = i;
        }
        {
            // a modify whose functor threw in its first application is rolled back; every other one takes effect
            std::vector<const ModRec*> eff;
            for (auto* m : allm) {
                if (m->throw_at == 1) {
                    if (pos.count(m->id)) vrf::violation("oracle:rolled_back_modification_visible", "{\"id\":" + std::to_string(m->id) + ",\"final\":" + vrf::jnums(fa) + "}");
                } else eff.push_back(m);
            }
            allm = eff;
        }
        if (fa.size() != allm.size()) vrf::violation("oracle:lost_update", "{\"final\":" + vrf::jnums(fa) + ",\"modifies\":" + std::to_string(allm.size()) + "}");
        for (auto* m : allm)
            if (!pos.count(m->id)) vrf::violation("oracle:lost_update", "{\"missing\":" + std::to_string(m->id) + "}");
        // per-writer order and real-time order of modifies
        for (auto* a : allm)
            for (auto* b : allm) {
                if (a == b) continue;
                bool before = (a->thread == b->thread && a->id < b->id) || (vrf::clock_is_sync() && a->ret < b->call);
                if (before && pos[a->id] > pos[b->id])
                    vrf::violation("oracle:modifications_applied_out_of_order", "{\"first\":" + std::to_string(a->id) + ",\"second\":" + std::to_string(b->id) + ",\"final\":" + vrf::jnums(fa) + "}");
            }
        uint64_t nreads = 0, overlapped = 0;
        for (int t = 0; t < vrf::MAXT; t++) {
            const std::vector<uint32_t>* prev = nullptr;
            for (auto& rd : reads[t]) {
                nreads++;
                if (rd.seen.size() > fa.size() || !std::equal(rd.seen.begin(), rd.seen.end(), fa.begin()))
                    vrf::violation("oracle:read_value_not_a_prefix_of_final", "{\"seen\":" + vrf::jnums(rd.seen) + ",\"final\":" + vrf::jnums(fa) + "}");
                if (prev && rd.seen.size() < prev->size())
                    vrf::violation("oracle:reader_went_backwards", "{\"earlier\":" + vrf::jnums(*prev) + ",\"later\":" + vrf::jnums(rd.seen) + "}");
                prev = &rd.seen;
                if (vrf::clock_is_sync()) {
                    for (auto* m : allm) {
                        bool in = std::find(rd.seen.begin(), rd.seen.end(), m->id) != rd.seen.end();
                        if (m->ret < rd.call && !in)
                            vrf::violation("oracle:stale_read", "{\"missing_id\":" + std::to_string(m->id) + ",\"seen\":" + vrf::jnums(rd.seen) + "}");
                        if (in && m->call > rd.ret) vrf::violation("oracle:read_from_the_future", "{\"id\":" + std::to_string(m->id) + "}");
                        if (m->call < rd.ret && rd.call < m->ret) overlapped++;
                    }
                }
            }
        }
        uint64_t sig = R.sched_sig;
        for (auto v : fa) sig = vrf::mixhash(sig, v);
        for (auto& v : reads)
            for (auto& rd : v) sig = vrf::mixhash(sig, rd.seen.size() + 100);
        for (auto& sc : scripts) sig = vrf::mixhash(sig, sc.size() * 31 + 5);
        vrf::note(sig, overlapped > 0 || !vrf::clock_is_sync());
        vrf::count("modifies", allm.size());
        vrf::count("functor_invocations", functor_calls.load());
        vrf::count("reads", nreads);
        vrf::count("read_modify_pairs_overlapping_in_time", overlapped);
        if (r % 4000 == 0) {
            std::string obs = "{\"final_log\":" + vrf::jnums(fa) + ",\"snapshots_seen_by_readers\":[";
            bool first = true;
            for (auto& v : reads)
                for (auto& rd : v) {
                    obs += std::string(first ? "" : ",") + "{\"t\":" + std::to_string(rd.thread) + ",\"call\":" + std::to_string(rd.call) + ",\"ret\":" + std::to_string(rd.ret) + ",\"log\":" + vrf::jnums(rd.seen) + "}";
                    first = false;
                }
            obs += "],\"schedule_signature\":\"" + std::to_string(R.sched_sig) + "\"}";
            vrf::sample("{\"program\":" + pj + ",\"observed\":" + obs + "}");
        }
    }
    vrf::finish();
}
