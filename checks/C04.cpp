// C04 — cow_guarded snapshots are immutable; commits are atomic and never lost.
#include "all_headers.hpp"
#include "vrf.hpp"
using namespace gmlc::libguarded;
using vrf::Cell;
using vrf::Win;

struct Act {
    char kind;   // W commit, C cancel, S snapshot (kept for `keep` following actions of this thread)
    int form;    // S: 0 lock_shared 1 try 2 try_for 3 try_until ; W/C: 1 = move-construct the handle before releasing
    int hold;
    int keep;
    uint32_t id;
    bool during_unwind = false;  // W/C: the whole write cycle runs in a destructor while an unrelated exception propagates
};
struct HarnessUnwind {};
template<class F>
struct RunInDtor {
    F f;
    ~RunInDtor() { f(); }
};
struct WriteRec {
    uint32_t id;
    bool committed;
    uint64_t call, rel_call, ret;     // lock() call, release start, release return
    std::vector<uint32_t> initial;
};
struct SnapRec {
    uint64_t call, ret;
    std::vector<uint32_t> seen;
};
// a payload several cache lines wide (libraries have been known to treat "big" objects differently)
struct BigCell: Cell {
    char pad[600] = {};
    BigCell() = default;
    explicit BigCell(bool exclusive): Cell(exclusive) {}
};
static_assert(sizeof(BigCell) > 512, "BigCell is meant to be big");

// Allocation failure while a write handle is released: the commit allocates (the control block of the published pointer).
// Release is noexcept, so the unchanged library stops the program (std::terminate) - fail-stop, nothing can observe a lost
// commit. What must not happen is that the program goes on and the commit is silently gone. One child process per failing
// allocation (a terminate cannot be survived in-process).
#if !VRF_ASAN
#include <sys/wait.h>
static void allocfault_mode()
{
    using COW = cow_guarded<Cell, vrf::mutex_t>;
    long fail_stops = 0, survived = 0, points = 0;
    for (long n = 1; n <= 16; n++) {
        fflush(stdout);
        fflush(stderr);
        pid_t pid = fork();
        if (pid < 0) vrf::harness_error("fork failed");
        if (pid == 0) {
            std::set_terminate([] { _exit(42); });
            vrf::res.cur_round = n;
            vrf::res.cur_program = "{\"mode\":\"allocfault\",\"failing_allocation\":" + std::to_string(n) + "}";
            COW cow(false);
            {
                COW::handle h = cow.lock();
                h->append_raw(1);
            }
            {
                COW::handle h = cow.lock();
                h->append_raw(2);
                vrf::tl_new_fail_countdown = n;
                h.reset();  // commit
                vrf::tl_new_fail_countdown = 0;
            }
            if (vrf::tl_new_faults == 0) _exit(43);  // fewer than n allocations in a commit: enumeration complete
            // the fault fired and the program is still running: then the commit must be there, for readers and for writers
            auto s = cow.lock_shared();
            if (s->log() != std::vector<uint32_t>{1, 2})
                vrf::violation("oracle:commit_silently_lost_after_an_allocation_failure", "{\"failing_allocation\":" + std::to_string(n) + ",\"value\":" + vrf::jnums(s->log()) + "}");
            _exit(0);
        }
        int st = 0;
        if (waitpid(pid, &st, 0) != pid) vrf::harness_error("waitpid failed");
        int code = WIFEXITED(st) ? WEXITSTATUS(st) : 128 + WTERMSIG(st);
        if (code == 43) break;
        points++;
        if (code == 42) fail_stops++;
        else if (code == 0) survived++;
        else if (code == 1) _exit(1);  // the child reported the violation (VRF-RESULT line and replay file are written)
        else vrf::harness_error("allocfault child ended with status " + std::to_string(code));
        vrf::note(static_cast<uint64_t>(n) * 16 + static_cast<uint64_t>(code), true);
    }
    if (points == 0) vrf::harness_error("no allocation inside a commit was reached");
    vrf::count("allocation_failures_injected_into_a_commit", static_cast<uint64_t>(points));
    vrf::count("commit_fail_stop_terminate", static_cast<uint64_t>(fail_stops));
    vrf::count("commit_survived_and_visible", static_cast<uint64_t>(survived));
    vrf::res.rounds_done += points;
}
#endif

template<class P>
static void round_body(long r, long base_live)
{
    using COW = cow_guarded<P, vrf::mutex_t>;
    vrf::Round R(r);
    auto& rng = R.rng;
    int nt = static_cast<int>(rng.range(2, 5));
    std::vector<std::vector<Act>> scripts;
    uint32_t id = 1;
    for (int t = 0; t < nt; t++) {
        std::vector<Act> sc;
        int n = static_cast<int>(rng.range(1, 4));
        bool writer = (t == 0) || rng.chance(50);
        for (int i = 0; i < n; i++) {
            if (writer && rng.chance(60) && id <= 10) {
                sc.push_back(Act{rng.chance(75) ? 'W' : 'C', static_cast<int>(rng.below(2)), static_cast<int>(rng.below(4)), 0, id++, rng.chance(12)});
            } else {
                sc.push_back(Act{'S', static_cast<int>(rng.below(4)), static_cast<int>(rng.below(4)), static_cast<int>(rng.below(3)), 0});
            }
        }
        scripts.push_back(sc);
    }
    std::string pj = std::string("{\"payload\":\"") + (sizeof(P) > 512 ? "BigCell (600 bytes of padding)" : "Cell") + "\",\"threads\":[";
    for (size_t t = 0; t < scripts.size(); t++) {
        if (t) pj += ",";
        pj += vrf::jarr(scripts[t].begin(), scripts[t].end(), [](const Act& a) {
            return std::string("{\"k\":\"") + a.kind + "\",\"form\":" + std::to_string(a.form) + ",\"hold\":" + std::to_string(a.hold) + ",\"keep\":" + std::to_string(a.keep) + ",\"id\":" + std::to_string(a.id) + (a.during_unwind ? ",\"during_unwind\":1" : "") + "}";
        });
    }
    pj += "]}";
    R.program(pj);
    std::unique_ptr<COW> cow(new COW(false));
    std::vector<WriteRec> writes[vrf::MAXT];
    std::vector<SnapRec> snaps[vrf::MAXT];
    std::atomic<uint64_t> kept_across{0};
    for (size_t t = 0; t < scripts.size(); t++) {
        R.spawn([&, t] {
            struct Kept {
                typename COW::shared_handle sp;
                std::vector<uint32_t> seen;
                const Cell* ptr;
                int left;
            };
            std::vector<Kept> kept;
            auto revalidate = [&](Kept& k, const char* when) {
                if (k.sp.get() != k.ptr) vrf::violation("oracle:snapshot_pointer_changed", "{}");
                Win w(*k.sp, false);
                k.sp->check(when);
                if (k.sp->log() != k.seen)
                    vrf::violation("oracle:snapshot_changed_while_held", "{\"when\":\"" + std::string(when) + "\",\"before\":" + vrf::jnums(k.seen) + ",\"now\":" + vrf::jnums(k.sp->log()) + "}");
            };
            for (const Act& a : scripts[t]) {
                if (a.kind == 'S') {
                    SnapRec s;
                    s.call = vrf::now();
                    typename COW::shared_handle sp = a.form == 0 ? cow->lock_shared() :
                        a.form == 1                      ? cow->try_lock_shared() :
                        a.form == 2                      ? cow->try_lock_shared_for(std::chrono::microseconds(5)) :
                                                           cow->try_lock_shared_until(std::chrono::steady_clock::now() + std::chrono::microseconds(5));
                    if (!sp) vrf::violation("oracle:read_handle_null", "{}");
                    {
                        Win w(*sp, false);
                        sp->check("snapshot");
                        s.seen = sp->log();
                        for (int i = 0; i < a.hold; i++) vrf::user_point();
                        if (sp->log() != s.seen) vrf::violation("oracle:snapshot_changed_while_held", "{\"when\":\"first look\"}");
                    }
                    s.ret = vrf::now();
                    snaps[t].push_back(s);
                    if (a.keep > 0) kept.push_back(Kept{sp, s.seen, sp.get(), a.keep});
                } else {
                    WriteRec w;
                    w.id = a.id;
                    w.committed = (a.kind == 'W');
                    auto cycle = [&] {
                    w.call = vrf::now();
                        {
                            size_t held_before = vrf::held_count();
                            typename COW::handle h = cow->lock();
                            if (!h) vrf::violation("oracle:write_handle_null", "{}");
                            // the working copy is reached in one of the ways a write handle (a std::unique_ptr with a
                            // committing deleter) offers: its * and ->, get(), or through a reference to the unique_ptr
                            // it is (what generic code that takes a unique_ptr sees)
                            auto acc = [&](typename COW::handle& x) -> Cell& {
                                switch (a.id % 3) {
                                    case 1: return *x.get();
                                    case 2: {
                                        std::unique_ptr<P, typename COW::handle::deleter_type>& base = x;
                                        return (a.id % 2) ? *base : *base.operator->();
                                    }
                                    default: return (a.id % 2) ? *x : *x.operator->();
                                }
                            };
                            {
                                Cell& c = acc(h);
                                Win win(c, true);
                                vrf::tl_vt_label = static_cast<int>(a.id);
                                c.check("private copy");
                                w.initial = c.log();
                                for (int i = 0; i < a.hold; i++) vrf::user_point();
                                c.append_raw(a.id);
                            }
                            auto release = [&](typename COW::handle& hh) {
                                w.rel_call = vrf::now();
                                if (a.kind == 'W') {
                                    acc(hh).frozen = true;  // from now on the object is (about to be) published: nobody may write to it
                                    hh.reset();
                                } else {
                                    hh.cancel();
                                    if (hh) vrf::violation("oracle:handle_not_null_after_cancel", "{}");
                                }
                                // released means released: the writer lock is free now, not when the (empty) handle object dies
                                if (vrf::held_count() != held_before)
                                    vrf::violation("oracle:writer_lock_still_held_after_the_write_handle_was_released",
                                                   std::string("{\"release\":\"") + (a.kind == 'W' ? "reset()" : "cancel()") + "\"}");
                            };
                            if (a.form == 1) {
                                typename COW::handle h2(std::move(h));
                                if (h) vrf::violation("oracle:moved_from_write_handle_not_null", "{}");
                                {
                                    Cell& c2 = acc(h2);
                                    Win win(c2, true);
                                    c2.check("moved handle");
                                }
                                release(h2);
                            } else {
                                release(h);
                            }
                        }
                    };
                    if (a.during_unwind) {
                        // releasing a write handle is a commit also when it happens in clean-up code during stack unwinding
                        try {
                            RunInDtor<decltype(cycle)&> guard{cycle};
                            throw HarnessUnwind{};
                        }
                        catch (const HarnessUnwind&) {
                        }
                    } else cycle();
                    w.ret = vrf::now();
                    writes[t].push_back(std::move(w));
                }
                for (size_t i = 0; i < kept.size();) {
                    revalidate(kept[i], "later");
                    if (--kept[i].left <= 0) {
                        kept_across.fetch_add(1, std::memory_order_relaxed);
                        kept.erase(kept.begin() + static_cast<long>(i));
                    } else i++;
                }
            }
            for (auto& k : kept) revalidate(k, "end of script");
        });
    }
    R.run();
    if (vrf::global_held_count() != 0) vrf::violation("oracle:lock_leaked_at_quiescence", "{\"held\":" + std::to_string(vrf::global_held_count()) + "}");
    std::vector<uint32_t> fin;
    vrf::run_checked(r, [&] {
        // a writer can still lock (the writer lock was freed by every commit and cancel), and sees the final value
        typename COW::handle h = cow->lock();
        h->check("final");
        fin = h->log();
        h.cancel();
        auto s = cow->lock_shared();
        if (s->log() != fin) vrf::violation("oracle:cancel_changed_the_committed_value", "{}");
    });
    std::map<uint32_t, size_t> pos;
    for (size_t i = 0; i < fin.size(); i++) {
        if (pos.count(fin[i])) vrf::violation("oracle:update_applied_twice", "{\"final\":" + vrf::jnums(fin) + "}");
        pos[fin[i]] = i;
    }
    std::vector<const WriteRec*> allw;
    size_t commits = 0;
    for (auto& v : writes)
        for (auto& w : v) {
            allw.push_back(&w);
            if (w.committed) {
                commits++;
                if (!pos.count(w.id)) vrf::violation("oracle:lost_update", "{\"missing\":" + std::to_string(w.id) + ",\"final\":" + vrf::jnums(fin) + "}");
                // the private copy started from the latest committed value
                size_t p = pos[w.id];
                if (w.initial.size() != p || !std::equal(w.initial.begin(), w.initial.end(), fin.begin()))
                    vrf::violation("oracle:write_handle_did_not_start_from_latest_commit", "{\"id\":" + std::to_string(w.id) + ",\"initial\":" + vrf::jnums(w.initial) + ",\"final\":" + vrf::jnums(fin) + "}");
            } else {
                if (pos.count(w.id)) vrf::violation("oracle:cancelled_write_was_published", "{\"id\":" + std::to_string(w.id) + "}");
                if (w.initial.size() > fin.size() || !std::equal(w.initial.begin(), w.initial.end(), fin.begin()))
                    vrf::violation("oracle:write_handle_did_not_start_from_latest_commit", "{\"cancelled_id\":" + std::to_string(w.id) + "}");
            }
        }
    if (commits != fin.size()) vrf::violation("oracle:final_value_has_unknown_entries", "{\"final\":" + vrf::jnums(fin) + "}");
    uint64_t nsnaps = 0, overl = 0;
    for (int t = 0; t < vrf::MAXT; t++) {
        size_t prev = 0;
        for (auto& s : snaps[t]) {
            nsnaps++;
            if (s.seen.size() > fin.size() || !std::equal(s.seen.begin(), s.seen.end(), fin.begin()))
                vrf::violation("oracle:read_value_not_a_prefix_of_final", "{\"seen\":" + vrf::jnums(s.seen) + ",\"final\":" + vrf::jnums(fin) + "}");
            if (s.seen.size() < prev) vrf::violation("oracle:reader_went_backwards", "{}");
            prev = s.seen.size();
            if (vrf::clock_is_sync()) {
                for (auto* w : allw) {
                    if (!w->committed) continue;
                    bool in = std::find(s.seen.begin(), s.seen.end(), w->id) != s.seen.end();
                    if (w->ret < s.call && !in) vrf::violation("oracle:stale_read", "{\"missing_id\":" + std::to_string(w->id) + ",\"seen\":" + vrf::jnums(s.seen) + "}");
                    if (in && w->rel_call > s.ret) vrf::violation("oracle:read_from_the_future", "{\"id\":" + std::to_string(w->id) + "}");
                    if (w->call < s.ret && s.call < w->ret) overl++;
                }
            }
        }
    }
    vrf::run_checked(r, [&] { cow.reset(); });
    if (vrf::g_cell_live.load() != base_live)
        vrf::violation("oracle:objects_leaked_or_destroyed_twice", "{\"live\":" + std::to_string(vrf::g_cell_live.load() - base_live) + "}");
    uint64_t sig = R.sched_sig;
    for (auto v : fin) sig = vrf::mixhash(sig, v);
    for (auto& v : snaps)
        for (auto& s : v) sig = vrf::mixhash(sig, s.seen.size() + 50);
    for (auto& sc : scripts) sig = vrf::mixhash(sig, sc.size() * 13 + 1);
    vrf::note(sig, overl > 0 || kept_across.load() > 0);
    vrf::count("commits", commits);
    vrf::count("cancels", allw.size() - commits);
    vrf::count("snapshots", nsnaps);
    vrf::count("snapshots_kept_across_later_actions", kept_across.load());
    vrf::count("snapshot_write_pairs_overlapping_in_time", overl);
    if (r % 4000 == 0) {
        std::string obs = "{\"final_log\":" + vrf::jnums(fin) + ",\"snapshots\":[";
        bool first = true;
        for (auto& v : snaps)
            for (auto& sn : v) {
                obs += std::string(first ? "" : ",") + "{\"call\":" + std::to_string(sn.call) + ",\"ret\":" + std::to_string(sn.ret) + ",\"log\":" + vrf::jnums(sn.seen) + "}";
                first = false;
            }
        obs += "],\"writes\":[";
        first = true;
        for (auto* w : allw) {
            obs += std::string(first ? "" : ",") + "{\"id\":" + std::to_string(w->id) + ",\"committed\":" + (w->committed ? "1" : "0") + ",\"started_from\":" + vrf::jnums(w->initial) + "}";
            first = false;
        }
        obs += "]}";
        vrf::sample("{\"program\":" + pj + ",\"observed\":" + obs + "}");
    }
}

int main(int argc, char** argv)
{
    vrf::init(argc, argv, "C04");
#if !VRF_ASAN
    if (vrf::cfg.mode == "allocfault") {
        allocfault_mode();
        vrf::finish();
    }
#endif
    long base_live = vrf::g_cell_live.load();
    for (long r = 0; r < vrf::cfg.rounds; r++) {
        if (!vrf::want_round(r)) continue;
        if (r % 5 == 4) round_body<BigCell>(r, base_live);
        else round_body<Cell>(r, base_live);
    }
    vrf::finish();
}
