// C05 — rcu_list never frees an element a live handle may still reach.
#include "rcu_common.hpp"
using namespace rcu;

template<class T>
static void one_round(long r)
{
    vrf::Round R(r);
    bool big = (vrf::cfg.mode == "big");
    // C05 also injects allocator failures into erase (memory safety must survive them); only with the heap-free element type,
    // because the node such a failure leaks (unchanged library; not judged here) is released by the harness without its destructor
    Program p = gen_program(R.rng, 100, big, std::is_same<T, vrf::Cell>::value);
    std::unique_ptr<Fixture<T>> fx(new Fixture<T>());
    uint32_t next_id = 1;
    fx->seed_initial(p.initial, next_id);
    fx->as.live_handles = &fx->live_handles;
    R.program("{\"T\":\"" + std::string(Val<T>::name()) + "\",\"prog\":" + p.json() + "}");
    for (size_t t = 0; t < p.scripts.size(); t++) R.spawn([&fx, &p, t] { fx->run_script(static_cast<int>(t), p.scripts[t]); });
    R.run();
    uint64_t reclaimed = fx->as.node_destroys;
    uint64_t with_live = fx->as.node_destroys_with_live_handle;
    uint64_t pauses = 0;
    for (int t = 0; t < vrf::MAXT; t++) pauses += fx->trav[t].size();
    vrf::run_checked(r, [&] {
        (void)fx->final_contents();
        fx->g.reset();
    });
    if (!p.alloc_faults && fx->as.live_blocks() != 0) vrf::violation("oracle:alloc_leak_after_list_destroyed", "{}");
    vrf::count("allocator_failures_injected_into_erase", fx->as.alloc_failures.load());
    fx->as.reset(p.alloc_faults);
    vrf::note(vrf::mixhash(p.hash(), R.sched_sig), with_live > 0);
    vrf::count("nodes_reclaimed_before_list_destruction", reclaimed);
    vrf::count("nodes_reclaimed_while_another_handle_alive", with_live);
    if (with_live) vrf::count("rounds_with_reclamation_while_a_handle_was_alive");
    vrf::count("traversals", pauses);
    if (r % 3000 == 0) vrf::sample(vrf::res.cur_program);
}

int main(int argc, char** argv)
{
    vrf::init(argc, argv, "C05");
    for (long r = 0; r < vrf::cfg.rounds; r++) {
        if (!vrf::want_round(r)) continue;
        if (r % 4 == 3) one_round<std::string>(r);
        else one_round<vrf::Cell>(r);
    }
    vrf::threshold("rounds_with_reclamation_while_a_handle_was_alive", vrf::res.counters["rounds_with_reclamation_while_a_handle_was_alive"],
                   static_cast<uint64_t>(vrf::cfg.rounds / 400 + 1));
    vrf::finish();
}
