// C06 — deferred_guarded applies each modification once, exclusively, in order.
#include "all_headers.hpp"
#include "vrf.hpp"
using namespace gmlc::libguarded;
using vrf::Cell;
using vrf::Win;

struct Boom {
    uint32_t id;
};
// the same failure as an exception of a standard library type (a handler that stores "the exception" by its static type
// would keep a std::exception that is not what the function threw)
struct BoomStd: public std::out_of_range, public Boom {
    explicit BoomStd(uint32_t i): std::out_of_range("value rejected"), Boom{i} {}
};
struct Act {
    char kind;  // D detach, A async(int), V async(void), R shared handle, L load
    int form;   // R: 0 lock_shared 1 try 2 try_for 3 try_until
    int hold;
    bool throws;
    uint32_t id;
    int nested = 0;  // two-object rounds: the functor (running under A's lock) also uses a second object B: 1 B.modify_detach, 2 B.lock_shared
};
struct SubRec {
    int thread;
    char kind;
    uint32_t id;
    bool throws;
    uint64_t call, ret;
    bool ran_before_return;
    bool exception_at_caller;
};
constexpr int MAXID = 40;

struct Shared {
    std::atomic<uint32_t> exec_count[MAXID];
    std::atomic<uint32_t> exec_seq[MAXID];
    std::atomic<uint32_t> seq{1};
    std::atomic<uint32_t> seen_len[MAXID];
    std::atomic<const void*> obj_addr[MAXID];  // address of the object the functor was applied to
    Shared()
    {
        for (int i = 0; i < MAXID; i++) {
            exec_count[i].store(0);
            exec_seq[i].store(0);
            seen_len[i].store(0);
            obj_addr[i].store(nullptr);
        }
    }
};

// the object whose modification is the outermost user code running on this thread (a modification of A may submit to B and
// find B free, in which case B's functor runs nested inside A's)
static thread_local std::vector<const Shared*> tl_inside;  // the objects whose modifications are running on this thread, outermost first
struct InsideScope {
    explicit InsideScope(const Shared* sh) { tl_inside.push_back(sh); }
    ~InsideScope() { tl_inside.pop_back(); }
};
static bool inside_a_modification_of(const Shared* sh) { return std::find(tl_inside.begin(), tl_inside.end(), sh) != tl_inside.end(); }
static int functor_body(Cell& c, uint32_t id, bool throws, int hold, Shared* sh, const std::function<void()>* nested = nullptr)
{
    InsideScope inside(sh);
    Win w(c, true);
    vrf::tl_vt_label = static_cast<int>(id);
    sh->exec_count[id].fetch_add(1, std::memory_order_relaxed);
    sh->exec_seq[id].store(sh->seq.fetch_add(1, std::memory_order_relaxed), std::memory_order_relaxed);
    c.check("functor");
    for (int i = 0; i < hold; i++) vrf::user_point();
    if (throws) {
        if (id % 2) throw BoomStd(id);
        throw Boom{id};
    }
    c.append_raw(id);
    sh->seen_len[id].store(c.n, std::memory_order_relaxed);
    if (nested && *nested) (*nested)();  // user code may use other wrappers from inside a modification
    return static_cast<int>(c.n);
}

template<class M>
static void one_round(long r, const char* mname)
{
    using DG = deferred_guarded<Cell, M>;
    vrf::Round R(r);
    auto& rng = R.rng;
    int nsub = static_cast<int>(rng.range(1, 3)), nrd = static_cast<int>(rng.range(1, 3));
    // two-object rounds: some functors applied to A also use a second deferred_guarded B of the same type (queue a write on
    // it / take a shared handle, which may drain B's queue from inside A's drain), while another thread keeps B busy
    bool two = rng.chance(30);
    if (two && nrd > 2) nrd = 2;
    std::vector<std::vector<Act>> scripts;
    uint32_t id = 1;
    for (int t = 0; t < nsub; t++) {
        std::vector<Act> sc;
        int n = static_cast<int>(rng.range(1, 5));
        for (int i = 0; i < n && id < 26; i++) {
            static const char kinds[] = {'D', 'D', 'A', 'V', 'Q'};  // Q: modify_async with a functor returning a reference into the object
            sc.push_back(Act{kinds[rng.below(5)], 0, static_cast<int>(rng.below(3)), rng.chance(12), id++, two ? static_cast<int>(rng.below(3)) : 0});
            if (rng.chance(15)) sc.push_back(Act{'R', static_cast<int>(rng.below(4)), static_cast<int>(rng.below(3)), false, 0});
        }
        scripts.push_back(sc);
    }
    for (int t = 0; t < nrd; t++) {
        std::vector<Act> sc;
        int n = static_cast<int>(rng.range(1, 4));
        for (int i = 0; i < n; i++) {
            if (rng.chance(80)) sc.push_back(Act{'R', static_cast<int>(rng.below(4)), static_cast<int>(rng.range(0, 8)), false, 0});
            else sc.push_back(Act{'L', 0, 0, false, 0});
        }
        scripts.push_back(sc);
    }
    constexpr bool timed = std::is_same<M, vrf::timed_mutex_t>::value || std::is_same<M, vrf::shared_timed_mutex_t>::value;
    std::string pj = std::string("{\"mutex\":\"") + mname + "\",\"threads\":[";
    for (size_t t = 0; t < scripts.size(); t++) {
        if (t) pj += ",";
        pj += vrf::jarr(scripts[t].begin(), scripts[t].end(), [](const Act& a) {
            return std::string("{\"k\":\"") + a.kind + "\",\"form\":" + std::to_string(a.form) + ",\"hold\":" + std::to_string(a.hold) + ",\"throws\":" + (a.throws ? "1" : "0") + ",\"id\":" + std::to_string(a.id) + (a.nested ? ",\"uses_second_object\":" + std::to_string(a.nested) : std::string()) + "}";
        });
    }
    pj += std::string("],\"second_object\":") + (two ? "1" : "0") + "}";
    R.program(pj);
    std::unique_ptr<DG> dg(new DG(false));
    std::unique_ptr<DG> dgb(two ? new DG(false) : nullptr);
    Shared sh, shb;
    std::atomic<uint32_t> b_next{1};
    std::atomic<uint32_t> b_submitted[MAXID];
    for (auto& x : b_submitted) x.store(0);
    DG* dgbp = dgb.get();
    DG* dgap = dg.get();
    Shared* shbp = &shb;
    Shared* shap = &sh;
    auto make_hook = [&b_next, &b_submitted, dgbp, dgap, shbp, shap](int kind) -> std::shared_ptr<std::function<void()>> {
        if (kind == 0 || dgbp == nullptr) return nullptr;
        std::atomic<uint32_t>* nextp = &b_next;
        std::atomic<uint32_t>* subp = b_submitted;
        return std::make_shared<std::function<void()>>([kind, dgbp, dgap, shbp, shap, nextp, subp] {
            // user code does not re-enter a wrapper from inside one of that wrapper's own modifications (the thread owns its lock)
            if (inside_a_modification_of(shbp)) return;
            try {
                if (kind == 1) {
                    uint32_t bid = nextp->fetch_add(1, std::memory_order_relaxed);
                    if (bid >= MAXID) return;
                    subp[bid].store(1, std::memory_order_relaxed);
                    // every other modification of B in turn posts something (that changes nothing) back to A: user code that
                    // runs inside one wrapper may submit to another one, in both directions at once
                    // (not when a modification of A is running further out on the same thread: that thread owns A's lock)
                    dgbp->modify_detach([bid, shbp, shap, dgap](Cell& c) {
                        InsideScope inside(shbp);
                        (void)functor_body(c, bid, false, 0, shbp);
                        if (bid % 2 && !inside_a_modification_of(shap))
                            dgap->modify_detach([](Cell& a) {
                                Win w(a, true);
                                a.check("first object, from inside a modification of the second");
                            });
                    });
                } else {
                    auto h = dgbp->lock_shared();
                    Win w(*h, false);
                    h->check("second object, from inside a modification of the first");
                }
            }
            catch (const std::exception& e) {
                vrf::violation("oracle:exception_from_second_object_inside_a_modification", vrf::jstr(e.what()));
            }
        });
    };
    std::vector<SubRec> subs[vrf::MAXT];
    std::vector<std::pair<uint32_t, std::future<int>>> futs_i[vrf::MAXT];
    std::vector<std::pair<uint32_t, std::future<void>>> futs_v[vrf::MAXT];
    std::vector<std::pair<uint32_t, std::future<Cell&>>> futs_r[vrf::MAXT];
    for (size_t t = 0; t < scripts.size(); t++) {
        R.spawn([&, t] {
            Shared* shp = &sh;
            for (const Act& a : scripts[t]) {
                if (a.kind == 'R') {
                    auto use = [&](auto&& h) {
                        if (!h) return;
                        Win w(*h, false);
                        h->check("reader");
                        auto seen = h->log();
                        for (int i = 0; i < a.hold; i++) {
                            if (i % 2) vrf::hyield();
                            else vrf::user_point();
                        }
                        if (h->log() != seen) vrf::violation("oracle:object_changed_under_shared_handle", "{}");
                    };
                    if (a.form == 0) use(dg->lock_shared());
                    else if (a.form == 1) use(dg->try_lock_shared());
                    else if constexpr (timed) {
                        if (a.form == 2) use(dg->try_lock_shared_for(std::chrono::microseconds(30)));
                        else use(dg->try_lock_shared_until(std::chrono::steady_clock::now() + std::chrono::microseconds(30)));
                    } else use(dg->try_lock_shared());
                    continue;
                }
                if (a.kind == 'L') {
                    Cell c = dg->load();
                    c.check("load");
                    continue;
                }
                SubRec s{static_cast<int>(t), a.kind, a.id, a.throws, 0, 0, false, false};
                uint32_t fid = a.id;
                bool thr = a.throws;
                int hold = a.hold;
                auto hook = make_hook(a.nested);
                s.call = vrf::now();
                try {
                    if (a.kind == 'D') {
                        auto fn = [fid, thr, hold, shp, hook](Cell& c) { (void)functor_body(c, fid, thr, hold, shp, hook.get()); };
                        if (fid % 4 == 2) {  // a named callable, given as an lvalue: the caller may use it again afterwards
                            auto named = vrf::one_shot(fn);
                            dg->modify_detach(named);
                            vrf::still_usable(named);
                        } else if (fid % 2) dg->modify_detach(vrf::one_shot(fn));  // a value-category-sensitive callable, given as an rvalue
                        else dg->modify_detach(fn);
                    } else if (a.kind == 'A') {
                        auto fn = [fid, thr, hold, shp, hook](Cell& c) { return functor_body(c, fid, thr, hold, shp, hook.get()); };
                        futs_i[t].emplace_back(fid, (fid % 2) ? dg->modify_async(vrf::one_shot(fn)) : dg->modify_async(fn));
                    } else if (a.kind == 'Q') {
                        // the result is a reference: the future must refer to what the function returned (the object inside
                        // the wrapper), on the direct and on the queued path alike
                        auto fn = [fid, thr, hold, shp, hook](Cell& c) -> Cell& {
                            shp->obj_addr[fid].store(&c, std::memory_order_relaxed);
                            (void)functor_body(c, fid, thr, hold, shp, hook.get());
                            return c;
                        };
                        futs_r[t].emplace_back(fid, dg->modify_async(fn));
                    } else {
                        auto fn = [fid, thr, hold, shp, hook](Cell& c) { (void)functor_body(c, fid, thr, hold, shp, hook.get()); };
                        futs_v[t].emplace_back(fid, (fid % 2) ? dg->modify_async(vrf::one_shot(fn)) : dg->modify_async(fn));
                    }
                }
                catch (const Boom& b) {
                    s.exception_at_caller = true;
                    if (b.id != fid || a.kind != 'D') vrf::violation("oracle:unexpected_exception_at_caller", "{\"id\":" + std::to_string(fid) + "}");
                }
                s.ran_before_return = sh.exec_count[fid].load(std::memory_order_relaxed) > 0;
                s.ret = vrf::now();
                if (vrf::held_count() != 0) vrf::violation("oracle:lock_held_after_submission_returned", "{\"id\":" + std::to_string(fid) + "}");
                subs[t].push_back(s);
            }
        });
    }
    if (two) {
        R.spawn([&] {
            for (int i = 0; i < 3; i++) {
                {
                    auto h = dgb->lock_shared();  // while this handle lives, writes to B are queued
                    Win w(*h, false);
                    h->check("second object reader");
                    for (int k = 0; k < 4; k++) vrf::hyield();
                }
                vrf::hyield();
            }
        });
    }
    R.run();
    if (vrf::global_held_count() != 0) vrf::violation("oracle:lock_leaked_at_quiescence", "{}");
    // quiescence: submitters have returned, nobody holds a handle; the next access applies everything that is queued
    int final_access = static_cast<int>(rng.below(3));
    std::vector<uint32_t> fin;
    vrf::run_checked(r, [&] {
        if (final_access == 0) {
            auto h = dg->lock_shared();
            fin = h->log();
        } else if (final_access == 1) {
            dg->modify_detach([](Cell& c) {
                Win w(c, true);
                c.check("noop");
            });
        } else {
            auto h = dg->try_lock_shared();
            if (!h) vrf::violation("oracle:try_lock_shared_failed_with_no_holder", "{}");
            fin = h->log();
        }
    });
    std::vector<const SubRec*> all;
    for (auto& v : subs)
        for (auto& s : v) all.push_back(&s);
    uint64_t queued = 0, direct = 0;
    for (auto* s : all) {
        uint32_t n = sh.exec_count[s->id].load();
        if (n == 0) vrf::violation("oracle:modification_stranded", "{\"id\":" + std::to_string(s->id) + ",\"kind\":\"" + std::string(1, s->kind) + "\",\"final_access\":" + std::to_string(final_access) + "}");
        if (n > 1) vrf::violation("oracle:modification_executed_twice", "{\"id\":" + std::to_string(s->id) + "}");
        if (s->ran_before_return) direct++;
        else queued++;
        if (s->kind == 'D' && s->throws && s->ran_before_return && !s->exception_at_caller) {
            // ran before the call returned: either on the direct path (exception must reach the caller) or queued and
            // drained by another thread meanwhile (exception swallowed by the task) - only the former is judged, and
            // it is identified by the executing thread being the caller: not observable here, so not judged.
        }
    }
    if (final_access == 1) {
        vrf::run_checked(r, [&] {
            auto h = dg->lock_shared();
            fin = h->log();
        });
    }
    std::map<uint32_t, size_t> pos;
    for (size_t i = 0; i < fin.size(); i++) {
        if (pos.count(fin[i])) vrf::violation("oracle:update_applied_twice", "{\"final\":" + vrf::jnums(fin) + "}");
        pos[fin[i]] = i;
    }
    size_t expect = 0;
    for (auto* s : all) {
        if (!s->throws) {
            expect++;
            if (!pos.count(s->id)) vrf::violation("oracle:lost_update", "{\"missing\":" + std::to_string(s->id) + ",\"final\":" + vrf::jnums(fin) + "}");
        } else if (pos.count(s->id)) vrf::violation("oracle:final_value_has_unknown_entries", "{}");
    }
    if (expect != fin.size()) vrf::violation("oracle:final_value_has_unknown_entries", "{\"final\":" + vrf::jnums(fin) + "}");
    // order: per submitter and real time
    for (auto* a : all)
        for (auto* b : all) {
            if (a == b) continue;
            bool before = (a->thread == b->thread && a->id < b->id) || (vrf::clock_is_sync() && a->ret < b->call);
            if (before && sh.exec_seq[a->id].load() > sh.exec_seq[b->id].load())
                vrf::violation("oracle:modifications_applied_out_of_order", "{\"first\":" + std::to_string(a->id) + ",\"second\":" + std::to_string(b->id) + ",\"final\":" + vrf::jnums(fin) + "}");
        }
    // futures
    for (int t = 0; t < vrf::MAXT; t++) {
        for (auto& f : futs_i[t]) {
            if (!vrf::is_ready(f.second)) vrf::violation("oracle:async_future_not_ready_after_drain", "{\"id\":" + std::to_string(f.first) + "}");
            bool thr = false;
            for (auto* s : all)
                if (s->id == f.first) thr = s->throws;
            try {
                int v = f.second.get();
                if (thr) vrf::violation("oracle:future_value_instead_of_exception", "{}");
                if (v != static_cast<int>(sh.seen_len[f.first].load())) vrf::violation("oracle:future_holds_wrong_result", "{\"id\":" + std::to_string(f.first) + "}");
            }
            catch (const Boom& b) {
                if (!thr || b.id != f.first) vrf::violation("oracle:future_holds_wrong_exception", "{}");
            }
            catch (const std::future_error& e) {
                vrf::violation("oracle:future_error", vrf::jstr(e.what()));
            }
            catch (const std::exception& e) {
                vrf::violation("oracle:future_holds_an_exception_the_function_did_not_throw", vrf::jstr(e.what()));
            }
        }
        for (auto& f : futs_r[t]) {
            if (!vrf::is_ready(f.second)) vrf::violation("oracle:async_future_not_ready_after_drain", "{\"id\":" + std::to_string(f.first) + "}");
            bool thr = false;
            for (auto* s : all)
                if (s->id == f.first) thr = s->throws;
            try {
                Cell& got = f.second.get();
                if (thr) vrf::violation("oracle:future_value_instead_of_exception", "{}");
                if (static_cast<const void*>(&got) != sh.obj_addr[f.first].load())
                    vrf::violation("oracle:future_does_not_refer_to_what_the_function_returned", "{\"id\":" + std::to_string(f.first) + "}");
            }
            catch (const Boom& b) {
                if (!thr || b.id != f.first) vrf::violation("oracle:future_holds_wrong_exception", "{}");
            }
            catch (const std::future_error& e) {
                vrf::violation("oracle:future_error", vrf::jstr(e.what()));
            }
            catch (const std::exception& e) {
                vrf::violation("oracle:future_holds_an_exception_the_function_did_not_throw", vrf::jstr(e.what()));
            }
        }
        for (auto& f : futs_v[t]) {
            if (!vrf::is_ready(f.second)) vrf::violation("oracle:async_future_not_ready_after_drain", "{\"id\":" + std::to_string(f.first) + "}");
            bool thr = false;
            for (auto* s : all)
                if (s->id == f.first) thr = s->throws;
            try {
                f.second.get();
                if (thr) vrf::violation("oracle:future_value_instead_of_exception", "{}");
            }
            catch (const Boom& b) {
                if (!thr || b.id != f.first) vrf::violation("oracle:future_holds_wrong_exception", "{}");
            }
            catch (const std::future_error& e) {
                vrf::violation("oracle:future_error", vrf::jstr(e.what()));
            }
            catch (const std::exception& e) {
                vrf::violation("oracle:future_holds_an_exception_the_function_did_not_throw", vrf::jstr(e.what()));
            }
        }
    }
    if (two) {
        std::vector<uint32_t> finb;
        vrf::run_checked(r, [&] {
            try {
                auto h = dgb->lock_shared();
                finb = h->log();
            }
            catch (const std::exception& e) {
                vrf::violation("oracle:exception_from_second_object", vrf::jstr(e.what()));
            }
        });
        std::set<uint32_t> seen(finb.begin(), finb.end());
        if (seen.size() != finb.size()) vrf::violation("oracle:update_applied_twice", "{\"object\":\"second\",\"final\":" + vrf::jnums(finb) + "}");
        uint64_t nb = 0;
        for (uint32_t b = 1; b < MAXID; b++) {
            if (!b_submitted[b].load()) continue;
            nb++;
            uint32_t n = shb.exec_count[b].load();
            if (n == 0) vrf::violation("oracle:modification_stranded", "{\"object\":\"second\",\"id\":" + std::to_string(b) + "}");
            if (n > 1) vrf::violation("oracle:modification_executed_twice", "{\"object\":\"second\",\"id\":" + std::to_string(b) + "}");
            if (!seen.count(b)) vrf::violation("oracle:lost_update", "{\"object\":\"second\",\"missing\":" + std::to_string(b) + "}");
        }
        if (nb != finb.size()) vrf::violation("oracle:final_value_has_unknown_entries", "{\"object\":\"second\",\"final\":" + vrf::jnums(finb) + "}");
        vrf::count("two_object_rounds");
        vrf::count("modifications_of_the_second_object_from_inside_a_modification", nb);
        vrf::run_checked(r, [&] { dgb.reset(); });
    }
    vrf::run_checked(r, [&] { dg.reset(); });
    uint64_t sig = vrf::mixhash(R.sched_sig, std::hash<std::string>()(pj));
    for (auto* s : all) sig = vrf::mixhash(sig, sh.exec_seq[s->id].load() * 2 + (s->ran_before_return ? 1 : 0));
    vrf::note(sig, queued > 0);
    vrf::count("submissions_queued_path", queued);
    vrf::count("submissions_ran_before_return", direct);
    vrf::count("submissions", all.size());
    if (r % 4000 == 0) vrf::sample(pj);
}

int main(int argc, char** argv)
{
    vrf::init(argc, argv, "C06");
    for (long r = 0; r < vrf::cfg.rounds; r++) {
        if (!vrf::want_round(r)) continue;
        switch ((r + vrf::cfg.proc) % 4) {
            case 0: one_round<vrf::shared_timed_mutex_t>(r, "shared_timed_mutex"); break;
            case 1: one_round<vrf::shared_mutex_t>(r, "shared_mutex"); break;
            case 2: one_round<vrf::mutex_t>(r, "mutex"); break;
            default: one_round<vrf::timed_mutex_t>(r, "timed_mutex"); break;
        }
    }
    vrf::threshold("submissions_queued_path", vrf::res.counters["submissions_queued_path"], 5);
    vrf::threshold("submissions_ran_before_return", vrf::res.counters["submissions_ran_before_return"], 5);
    vrf::finish();
}
