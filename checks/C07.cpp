// C07 — no data races: publication probes with plain (non-atomic) payload fields for every hand-over the library
// performs.  Run under ThreadSanitizer (the deciding oracle there) and, with value checks, under the other builds and
// the TSO amplifier.  The remaining part of C07 re-runs the other properties' workloads in the TSan build (registry).
#include "rcu_common.hpp"
using namespace gmlc::libguarded;
using namespace gmlc::concurrency;

struct Plain {
    int a[4] = {0, 0, 0, 0};
    long tag = 0;
    void write(int v)
    {
        for (int i = 0; i < 4; i++) {
            a[i] = v;
            if (i == 1) vrf::user_point();
        }
        tag = v;
    }
    int read(const char* where) const
    {
        int v = a[0];
        vrf::user_point();
        for (int i = 1; i < 4; i++)
            if (a[i] != v) vrf::violation("oracle:torn_plain_payload", std::string("{\"where\":\"") + where + "\"}");
        if (tag != v) vrf::violation("oracle:torn_plain_payload", std::string("{\"where\":\"") + where + "\",\"field\":\"tag\"}");
        return v;
    }
};
static void delay(vrf::Rng& rng, int max)
{
    int n = static_cast<int>(rng.below(static_cast<uint64_t>(max) + 1));
    for (int i = 0; i < n; i++) vrf::hyield();
}

enum Probe { P_LR, P_COW, P_RCU, P_LATCH, P_TRIGGER, P_BARRIER, P_DEFERRED, P_DELAYED_OBJECTS, P_TRIPWIRE, P_SHARED, P_DELAYED_DESTR, NPROBE };
static const char* const PROBEN[] = {"left-right functor -> reader -> next functor", "cow commit -> snapshot", "rcu node construct -> traverse -> reclaim",
                                     "latch arrive -> wait (incl. unlocked fast path)", "trigger -> wait", "barrier generations", "deferred queue hand-over",
                                     "DelayedObjects promise -> future", "trip wire", "shared_guarded / ordered_guarded handles",
                                     "DelayedDestructor add -> reap on another thread"};

static void probe(long r, int which)
{
    vrf::Round R(r);
    auto& rng = R.rng;
    uint64_t s1 = rng.next(), s2 = rng.next(), s3 = rng.next();
    R.program(std::string("{\"probe\":\"") + PROBEN[which] + "\"}");
    switch (which) {
        case P_LR: {
            lr_guarded<Plain, vrf::mutex_t> lr;
            for (int t = 0; t < 2; t++)
                R.spawn([&, t] {
                    vrf::Rng g(t ? s1 : s2);
                    for (int i = 1; i <= 3; i++) {
                        int v = t * 100 + i;
                        lr.modify([v](Plain& p) { p.write(v); });
                        delay(g, 2);
                    }
                });
            for (int t = 0; t < 2; t++)
                R.spawn([&, t] {
                    vrf::Rng g(s3 + static_cast<uint64_t>(t));
                    int last = -1;
                    (void)last;
                    for (int i = 0; i < 4; i++) {
                        auto h = i % 2 ? lr.lock_shared() : lr.try_lock_shared();
                        (void)h->read("lr reader");
                        delay(g, 2);
                        (void)h->read("lr reader (2)");
                    }
                });
            R.run();
            break;
        }
        case P_COW: {
            cow_guarded<Plain, vrf::mutex_t> cow;
            for (int t = 0; t < 2; t++)
                R.spawn([&, t] {
                    vrf::Rng g(t ? s1 : s2);
                    for (int i = 1; i <= 2; i++) {
                        auto h = cow.lock();
                        h->write(t * 100 + i);
                        delay(g, 2);
                        if (g.chance(20)) h.cancel();
                        else if (g.chance(20)) {
                            // the handle is a unique_ptr: handing it another object commits the first copy now and the
                            // second one when the handle dies - after the writer lock has gone. Nothing the library
                            // touches on that path may race with the other writer or with the readers.
                            auto* second = new Plain();
                            second->write(t * 100 + 50 + i);
                            h.reset(second);
                            delay(g, 2);
                        }
                    }
                });
            for (int t = 0; t < 2; t++)
                R.spawn([&, t] {
                    vrf::Rng g(s3 + static_cast<uint64_t>(t));
                    std::vector<std::shared_ptr<const Plain>> kept;
                    for (int i = 0; i < 4; i++) {
                        auto sp = cow.lock_shared();
                        (void)sp->read("cow snapshot");
                        kept.push_back(sp);
                        delay(g, 2);
                    }
                    for (auto& k : kept) (void)k->read("cow snapshot kept");
                });
            R.run();
            break;
        }
        case P_RCU: {
            struct Node {
                Plain p;
                explicit Node(int v) { p.write(v); }
            };
            using L = rcu_list<Node, vrf::mutex_t>;
            rcu_guarded<L> g;
            {
                auto h = g.lock_write();
                for (int i = 1; i <= 3; i++) h->emplace_back(i);
            }
            for (int t = 0; t < 2; t++)
                R.spawn([&, t] {
                    vrf::Rng gg(t ? s1 : s2);
                    for (int i = 0; i < 2; i++) {
                        rcu_guarded<L>::write_handle h(g.lock_write());
                        if (gg.chance(50)) h->emplace_front(10 + t * 10 + i);
                        else h->push_back(Node(20 + t * 10 + i));
                        auto it = h->begin();
                        if (it != h->end() && gg.chance(70)) {
                            if (gg.chance(50)) ++it;
                            if (it != h->end()) h->erase(it);
                        }
                        delay(gg, 2);
                    }
                });
            for (int t = 0; t < 2; t++)
                R.spawn([&, t] {
                    vrf::Rng gg(s3 + static_cast<uint64_t>(t));
                    for (int i = 0; i < 3; i++) {
                        rcu_guarded<L>::read_handle h(g.lock_read());
                        for (auto it = h->begin(); it != h->end(); ++it) {
                            (void)it->p.read("rcu element");
                            if (gg.chance(30)) delay(gg, 2);
                        }
                    }
                });
            R.run();
            break;
        }
        case P_LATCH: {
            Latch L(2);
            Plain data[2];
            for (int t = 0; t < 2; t++)
                R.spawn([&, t] {
                    vrf::Rng g(t ? s1 : s2);
                    delay(g, 3);
                    data[t].write(7 + t);
                    L.arrive();
                });
            for (int t = 0; t < 2; t++)
                R.spawn([&, t] {
                    vrf::Rng g(s3 + static_cast<uint64_t>(t));
                    delay(g, 6);  // a late waiter takes the unlocked fast path
                    L.wait();
                    if (data[0].read("after latch") != 7 || data[1].read("after latch") != 8) vrf::violation("oracle:data_published_before_arrive_not_visible", "{}");
                });
            R.run();
            break;
        }
        case P_TRIGGER: {
            TriggerVariable tv;
            Plain before_act, before_trig;
            R.spawn([&] {
                vrf::Rng g(s1);
                delay(g, 3);
                before_act.write(3);
                tv.activate();
                delay(g, 3);
                before_trig.write(4);
                tv.trigger();
            });
            for (int t = 0; t < 2; t++)
                R.spawn([&, t] {
                    vrf::Rng g(s2 + static_cast<uint64_t>(t));
                    delay(g, 4);
                    tv.waitActivation();
                    if (before_act.read("after waitActivation") != 3) vrf::violation("oracle:data_published_before_activate_not_visible", "{}");
                    tv.wait();
                    if (tv.isTriggered()) {
                        if (before_trig.read("after wait") != 4) vrf::violation("oracle:data_published_before_trigger_not_visible", "{}");
                    }
                });
            R.run();
            break;
        }
        case P_BARRIER: {
            constexpr int N = 3, G = 3;
            Barrier B(N);
            Plain slot[N];
            for (int t = 0; t < N; t++)
                R.spawn([&, t] {
                    vrf::Rng g(s1 + static_cast<uint64_t>(t));
                    for (int gen = 1; gen <= G; gen++) {
                        slot[t].write(gen * 10 + t);
                        delay(g, 2);
                        B.wait();
                        for (int o = 0; o < N; o++)
                            if (slot[o].read("after barrier") != gen * 10 + o) vrf::violation("oracle:data_published_before_barrier_not_visible", "{}");
                        B.wait();  // nobody overwrites a slot while others still read it
                    }
                });
            R.run();
            break;
        }
        case P_DEFERRED: {
            deferred_guarded<Plain, vrf::shared_timed_mutex_t> dg;
            std::vector<std::future<int>> futs[2];
            for (int t = 0; t < 2; t++)
                R.spawn([&, t] {
                    vrf::Rng g(t ? s1 : s2);
                    for (int i = 1; i <= 3; i++) {
                        auto captured = std::make_shared<Plain>();
                        captured->write(t * 100 + i);  // plain state captured by the functor, read by whoever runs it
                        if (g.chance(50)) dg.modify_detach([captured](Plain& p) { p.write(captured->read("captured state")); });
                        else futs[t].push_back(dg.modify_async([captured](Plain& p) {
                            int v = captured->read("captured state");
                            p.write(v);
                            return v;
                        }));
                        delay(g, 2);
                    }
                });
            for (int t = 0; t < 2; t++)
                R.spawn([&, t] {
                    vrf::Rng g(s3 + static_cast<uint64_t>(t));
                    for (int i = 0; i < 4; i++) {
                        auto h = dg.lock_shared();
                        (void)h->read("deferred reader");
                        delay(g, 3);
                    }
                });
            R.run();
            {
                auto h = dg.lock_shared();
                (void)h->read("deferred final");
            }
            for (auto& v : futs)
                for (auto& f : v) (void)f.get();
            break;
        }
        case P_DELAYED_OBJECTS: {
            struct Val {
                Plain p;
            };
            auto* d = new DelayedObjects<Val>();
            auto f1 = d->getFuture(1);
            auto f2 = d->getFuture(std::string("k"));
            R.spawn([&] {
                vrf::Rng g(s1);
                delay(g, 3);
                Val v;
                v.p.write(11);
                d->setDelayedValue(1, v);
                Val w;
                w.p.write(12);
                d->setDelayedValue(std::string("k"), std::move(w));
            });
            R.spawn([&] {
                vrf::wait_ready(f1);
                if (f1.get().p.read("future value") != 11) vrf::violation("oracle:future_value_wrong", "{}");
                (void)d->isCompleted(1);
            });
            R.spawn([&] {
                vrf::wait_ready(f2);
                if (f2.get().p.read("future value") != 12) vrf::violation("oracle:future_value_wrong", "{}");
                (void)d->isRecognized(std::string("k"));
            });
            R.run();
            delete d;
            break;
        }
        case P_TRIPWIRE: {
            auto line = make_tripline();
            Plain data;
            R.spawn([&] {
                vrf::Rng g(s1);
                TripWireTrigger t(line);
                TripWireTrigger t2(std::move(t));
                delay(g, 4);
                data.write(21);
            });
            for (int t = 0; t < 2; t++)
                R.spawn([&, t] {
                    (void)t;
                    TripWireDetector det(line);
                    vrf::spin_until([&] { return det.isTripped(); });
                    if (data.read("after trip") != 21) vrf::violation("oracle:data_written_before_trip_not_visible", "{}");
                });
            R.run();
            break;
        }
        case P_SHARED: {
            shared_guarded<Plain, vrf::shared_mutex_t> sg;
            ordered_guarded<Plain, vrf::shared_timed_mutex_t> og;
            guarded<Plain, vrf::timed_mutex_t> gg;
            for (int t = 0; t < 2; t++)
                R.spawn([&, t] {
                    vrf::Rng g(t ? s1 : s2);
                    for (int i = 1; i <= 2; i++) {
                        sg.lock()->write(t * 10 + i);
                        og.modify([&](Plain& p) { p.write(t * 10 + i); });
                        if (auto h = gg.try_lock_for(std::chrono::milliseconds(2))) h->write(t * 10 + i);
                        delay(g, 2);
                    }
                });
            for (int t = 0; t < 2; t++)
                R.spawn([&, t] {
                    vrf::Rng g(s3 + static_cast<uint64_t>(t));
                    for (int i = 0; i < 3; i++) {
                        (void)sg.lock_shared()->read("shared_guarded");
                        og.read([](const Plain& p) { (void)p.read("ordered_guarded::read"); });
                        if (auto h = og.try_lock_shared_for(std::chrono::milliseconds(1))) (void)h->read("ordered_guarded handle");
                        (void)gg.lock()->read("guarded");
                        delay(g, 2);
                    }
                });
            R.run();
            break;
        }
        default: {  // P_DELAYED_DESTR
            struct E {
                Plain p;
                ~E() { (void)p.read("element destructor"); }
            };
            auto* dd = new DelayedDestructor<E>([](std::shared_ptr<E>& e) { (void)e->p.read("callback"); });
            for (int t = 0; t < 2; t++)
                R.spawn([&, t] {
                    vrf::Rng g(t ? s1 : s2);
                    for (int i = 1; i <= 2; i++) {
                        auto e = std::make_shared<E>();
                        e->p.write(t * 10 + i);
                        dd->addObjectsToBeDestroyed(e);
                        delay(g, 2);
                        e.reset();
                        (void)dd->destroyObjects();
                    }
                });
            R.spawn([&] {
                for (int i = 0; i < 3; i++) {
                    (void)dd->destroyObjects();
                    (void)dd->size();
                    vrf::hyield();
                }
            });
            R.run();
            delete dd;
            break;
        }
    }
    vrf::note(vrf::mixhash(static_cast<uint64_t>(which) + 1, R.sched_sig ? R.sched_sig : static_cast<uint64_t>(r)), true);
    vrf::count(std::string("probe: ") + PROBEN[which]);
}

int main(int argc, char** argv)
{
    vrf::init(argc, argv, "C07");
    for (long r = 0; r < vrf::cfg.rounds; r++) {
        if (!vrf::want_round(r)) continue;
        probe(r, static_cast<int>((r + vrf::cfg.proc) % NPROBE));
    }
    vrf::sample("{\"probes\":" + vrf::jarr(PROBEN, PROBEN + NPROBE, [](const char* s) { return vrf::jstr(s); }) + "}");
    vrf::finish();
}
