// C08 — a handle is non-null exactly when it holds the lock, and releases it once.
#include "all_headers.hpp"
#include "vrf.hpp"
using namespace gmlc::libguarded;
using vrf::Cell;
using vrf::Win;

enum Form { Q_LOCK, Q_TRY, Q_TRY_FOR, Q_TRY_UNTIL, NFORM };
static const char* const FORMN[] = {"lock", "try", "try_for", "try_until"};
enum Rel { R_DESTROY, R_UNLOCK, R_MOVE_CTOR, R_MOVE_ASSIGN, R_SELF_MOVE_ASSIGN, NREL };
static const char* const RELN[] = {"destroy", "unlock()", "move-construct", "move-assign", "self-move-assign"};

struct Cycle {
    bool shared;
    int form, rel, hold, dur_us;
    bool moved_from_first;
    bool submit_first = false;  // deferred_guarded only: queue / apply a modification right before the acquisition
};
static std::string cyc_json(const Cycle& c)
{
    return std::string("{\"side\":\"") + (c.shared ? "shared" : "exclusive") + "\",\"form\":\"" + FORMN[c.form] + "\",\"release\":\"" + RELN[c.rel] + "\",\"hold\":" +
        std::to_string(c.hold) + ",\"us\":" + std::to_string(c.dur_us) + (c.submit_first ? ",\"modify_detach_first\":1" : "") + "}";
}
struct Stats {
    std::atomic<uint64_t> nonnull{0}, null{0}, timed_null{0}, cycles{0}, nested{0};
    std::atomic<const void*> handle_mutex{nullptr};  // the mutex the wrapper's handles hold (learned from the first non-null handle)
};

template<class M>
constexpr bool is_timed = std::is_same<M, vrf::timed_mutex_t>::value || std::is_same<M, vrf::shared_timed_mutex_t>::value ||
    std::is_same<M, vrf::recursive_timed_mutex_t>::value;
template<class M>
constexpr bool is_recursive = std::is_same<M, vrf::recursive_mutex_t>::value || std::is_same<M, vrf::recursive_timed_mutex_t>::value;

static void fail(const char* key, const Cycle& c, const std::string& extra = "")
{
    vrf::violation(key, "{\"cycle\":" + cyc_json(c) + (extra.empty() ? "" : ",\"info\":" + extra) + "}");
}

// generic life cycle of one handle: H is lock_handle or shared_lock_handle
struct NoNested {
    void operator()() const {}
};
template<class H, class Acquire, class AcquireOther, class Nested = NoNested>
static void life(const Cycle& c, bool enabled, bool solo, Acquire acquire, AcquireOther acquire_other, Stats& st, Nested nested = Nested())
{
    size_t before = vrf::held_count();
    uint64_t lc0 = vrf::stats().lock_calls, cv0 = vrf::stats().cv_waits;
    vrf::ctx().block_objs.clear();
    vrf::ctx().max_timed_request_ns = 0;
    vrf::ctx().timed_out_total_ns = 0;
    auto t0 = std::chrono::steady_clock::now();
    H h = acquire();
    auto el = std::chrono::steady_clock::now() - t0;
    size_t after = vrf::held_count();
    // a try / timed form never waits (untimed) for the lock that handles hold - i.e. for other holders. Short internal
    // critical sections (e.g. deferred_guarded's queue mutex) are not holders and are not judged.
    if (c.form != Q_LOCK) {
        const void* hm = st.handle_mutex.load(std::memory_order_relaxed);
        for (const void* o : vrf::ctx().block_objs)
            if (hm != nullptr && o == hm) fail("oracle:try_or_timed_acquisition_waited_untimed_for_the_handle_lock", c);
    }
    if (enabled && h && after == before + 1) st.handle_mutex.store(vrf::ctx().held.back().m, std::memory_order_relaxed);
    st.cycles.fetch_add(1, std::memory_order_relaxed);
    // "never blocking beyond the given time", without a wall clock: the time-out the library hands to the mutex must not
    // exceed the one the caller gave (the shim records the longest time-out requested during the call; +1 ms slack for
    // time_point -> duration conversions), and no untimed wait for the handle lock happens (above)
    if (c.form == Q_TRY && vrf::ctx().max_timed_request_ns != 0 && enabled) {
        // a plain try may not wait at all for the handle lock; timed waits on other (internal) locks are not judged
    }
    if ((c.form == Q_TRY_FOR || c.form == Q_TRY_UNTIL) && vrf::ctx().max_timed_request_ns > static_cast<int64_t>(c.dur_us) * 1000 + 1000000)
        fail("oracle:timed_attempt_asked_the_mutex_for_a_longer_wait_than_given", c, "\"" + std::to_string(vrf::ctx().max_timed_request_ns / 1000) + " us\"");
    // ... and the waits that gave up, taken together, fit into the caller's time-out: an implementation that waits in
    // several stages has to share one budget between them
    if ((c.form == Q_TRY_FOR || c.form == Q_TRY_UNTIL) && vrf::ctx().timed_out_total_ns > std::max<int64_t>(0, static_cast<int64_t>(c.dur_us)) * 1000 + 1000000)
        fail("oracle:timed_attempt_waited_longer_in_total_than_given", c, "\"" + std::to_string(vrf::ctx().timed_out_total_ns / 1000) + " us\"");
    (void)el;
    if (!enabled) {
        if (!h) fail("oracle:null_handle_in_disabled_mode", c);
        if (after != before || vrf::stats().lock_calls != lc0 || vrf::stats().cv_waits != cv0) fail("oracle:disabled_mode_touched_the_mutex", c);
        h->check("disabled mode access");
        st.nonnull.fetch_add(1, std::memory_order_relaxed);
    } else {
        bool nn = static_cast<bool>(h);
        if (nn && after != before + 1) fail("oracle:non_null_handle_without_the_lock", c, std::to_string(after - before));
        if (!nn && after != before) fail("oracle:null_handle_but_lock_kept", c);
        if (c.form == Q_LOCK && !nn) fail("oracle:blocking_acquisition_returned_null", c);
        if (solo && !nn) fail("oracle:try_failed_on_a_free_lock", c);
        (nn ? st.nonnull : st.null).fetch_add(1, std::memory_order_relaxed);
        if (nn) {
            Win w(*h, !c.shared);
            h->check("access under handle");
            nested();
            for (int i = 0; i < c.hold; i++) {
                if (i % 2) vrf::hyield();
                else vrf::user_point();
            }
        }
    }
    size_t held_with = vrf::held_count();
    switch (c.rel) {
        case R_DESTROY: break;
        case R_UNLOCK:
            h.unlock();
            if (h) fail("oracle:handle_not_null_after_unlock", c);
            if (vrf::held_count() != before) fail("oracle:unlock_did_not_release_exactly_once", c);
            break;
        case R_MOVE_CTOR: {
            auto* h2 = new H(std::move(h));
            if (vrf::held_count() != held_with) fail("oracle:move_construction_changed_lock_ownership", c);
            // the lock went with the new handle: the moved-from one holds nothing, so it is null
            if (h) fail("oracle:moved_from_handle_still_non_null", c, "\"after move construction\"");
            if (enabled && static_cast<bool>(*h2) != (held_with == before + 1)) fail("oracle:moved_to_handle_state_wrong", c);
            if (c.moved_from_first) {
                { H dead(std::move(h)); }  // destroy a (twice) moved-from handle: must not release anything
                if (vrf::held_count() != held_with) fail("oracle:moved_from_handle_released_the_lock", c);
                delete h2;
                if (vrf::held_count() != before) fail("oracle:lock_not_released_exactly_once_after_move", c);
            } else {
                delete h2;
                if (vrf::held_count() != before) fail("oracle:lock_not_released_exactly_once_after_move", c);
            }
            break;
        }
        case R_MOVE_ASSIGN: {
            // a handle that holds another wrapper's lock is assigned over: its own lock is released, ours is kept
            H g = acquire_other();
            size_t with_other = vrf::held_count();
            const bool source_held = (held_with == before + 1);  // the assigned-from handle is non-null exactly when it holds our lock
            g = std::move(h);
            // the target now stands for what the source stood for - also when the source was a failed attempt (null)
            if (enabled && static_cast<bool>(g) != source_held)
                fail("oracle:move_assigned_handle_state_wrong", c, source_held ? "\"null although it took over a held lock\"" : "\"non-null although it was assigned from a null handle\"");
            if (h) fail("oracle:moved_from_handle_still_non_null", c, "\"after move assignment\"");
            size_t expect = held_with;  // other released (if it was held), ours transferred
            if (vrf::held_count() != expect) fail("oracle:move_assignment_lock_count_wrong", c, "\"held " + std::to_string(vrf::held_count()) + " expected " + std::to_string(expect) + " (before assign " + std::to_string(with_other) + ")\"");
            { H dead(std::move(h)); }
            if (vrf::held_count() != expect) fail("oracle:moved_from_handle_released_the_lock", c);
            // g dies at the end of this scope
            break;
        }
        case R_SELF_MOVE_ASSIGN: {
            // a handle move-assigned to itself (an alias, a compaction loop with out == in) is the handle it was before:
            // still non-null exactly when it holds the lock
            H& alias = h;
            h = std::move(alias);
            if (vrf::held_count() != held_with) fail("oracle:self_move_assignment_changed_lock_ownership", c);
            if (enabled && static_cast<bool>(h) != (vrf::held_count() == before + 1))
                fail("oracle:handle_non_null_without_the_lock_after_self_move_assignment", c);
            break;  // h dies at the end of the caller's scope
        }
    }
    (void)held_with;
}

template<class W, class M, bool HAS_EXCL, bool HAS_SHARED>
static void run_thread(W& w, W& other, const std::vector<Cycle>& script, bool enabled, bool solo, Stats& st)
{
    for (const Cycle& c : script) {
        size_t before = vrf::held_count();
        auto dur = std::chrono::microseconds(c.dur_us);
        if (!c.shared) {
            if constexpr (HAS_EXCL) {
                using H = decltype(w.lock());
                Cycle cc = c;
                if (!is_timed<M> && (c.form == Q_TRY_FOR || c.form == Q_TRY_UNTIL)) cc.form = Q_TRY;  // timed forms need a timed mutex
                auto acq = [&]() -> H {
                    if (cc.form == Q_TRY) return w.try_lock();
                    if constexpr (is_timed<M>) {
                        if (cc.form == Q_TRY_FOR && cc.dur_us >= 0 && cc.hold % 2 == 0)
                            return w.try_lock_for(std::chrono::duration<unsigned, std::micro>(static_cast<unsigned>(cc.dur_us)));
                        if (cc.form == Q_TRY_FOR) return w.try_lock_for(dur);
                        if (cc.form == Q_TRY_UNTIL) {  // the deadline may be given on any clock
                            if (cc.hold % 2) return w.try_lock_until(std::chrono::system_clock::now() + dur);
                            return w.try_lock_until(std::chrono::steady_clock::now() + dur);
                        }
                    }
                    return w.lock();
                };
                auto acq_other = [&]() -> H { return other.try_lock(); };
                if constexpr (is_recursive<M>) {
                    // the owner of a recursive mutex re-enters: every nested acquisition form succeeds at once, counts once, releases once
                    auto nested = [&] {
                        if (!enabled) return;
                        size_t b = vrf::held_count();
                        {
                            H n = (cc.hold % 2) ? w.try_lock() : w.lock();
                            if (!n) fail("oracle:recursive_re_entry_by_the_owner_failed", cc);
                            if (vrf::held_count() != b + 1) fail("oracle:nested_handle_without_its_own_acquisition", cc);
                            n->check("nested access");
                            if (cc.hold >= 3) n.unlock();
                        }
                        if (vrf::held_count() != b) fail("oracle:nested_handle_did_not_release_exactly_once", cc);
                        st.nested.fetch_add(1, std::memory_order_relaxed);
                    };
                    life<H>(cc, enabled, solo, acq, acq_other, st, nested);
                } else {
                    life<H>(cc, enabled, solo, acq, acq_other, st);
                }
            }
        } else {
            if constexpr (HAS_SHARED) {
                if constexpr (std::is_same<W, deferred_guarded<Cell, M>>::value) {
                    if (c.submit_first)
                        w.modify_detach([](Cell& cell) {
                            Win win(cell, true);
                            cell.check("queued modification");
                        });
                }
                using H = decltype(w.lock_shared());
                Cycle cc = c;
                if (!is_timed<M> && (c.form == Q_TRY_FOR || c.form == Q_TRY_UNTIL)) cc.form = Q_TRY;  // timed forms need a timed mutex
                auto acq = [&]() -> H {
                    if (cc.form == Q_TRY) return w.try_lock_shared();
                    if constexpr (is_timed<M>) {
                        // the duration type is the caller's choice: signed microseconds, or (for durations >= 0) an unsigned rep
                        if (cc.form == Q_TRY_FOR && cc.dur_us >= 0 && cc.hold % 2 == 0)
                            return w.try_lock_shared_for(std::chrono::duration<unsigned, std::micro>(static_cast<unsigned>(cc.dur_us)));
                        if (cc.form == Q_TRY_FOR) return w.try_lock_shared_for(dur);
                        if (cc.form == Q_TRY_UNTIL) {
                            if (cc.hold % 2) return w.try_lock_shared_until(std::chrono::system_clock::now() + dur);
                            return w.try_lock_shared_until(std::chrono::steady_clock::now() + dur);
                        }
                    }
                    return w.lock_shared();
                };
                auto acq_other = [&]() -> H { return other.try_lock_shared(); };
                life<H>(cc, enabled, solo, acq, acq_other, st);
            }
        }
        if (vrf::held_count() != before) fail("oracle:lock_not_released_when_the_handle_died", c, std::to_string(vrf::held_count() - before));
    }
}

enum Fam { GUARDED, GUARDED_OPT_ON, GUARDED_OPT_OFF, SHARED, SHARED_OPT_ON, SHARED_OPT_OFF, ORDERED, DEFERRED, NFAM };
static const char* const FAMN[] = {"guarded", "guarded_opt(true)", "guarded_opt(false)", "shared_guarded", "shared_guarded_opt(true)", "shared_guarded_opt(false)",
                                   "ordered_guarded", "deferred_guarded"};
static const char* const MUTN[] = {"mutex", "timed_mutex", "shared_mutex", "shared_timed_mutex", "recursive_mutex", "recursive_timed_mutex"};

template<class W, class M, bool HAS_EXCL, bool HAS_SHARED, class Mk>
static void round_on(long r, int fam, int mut, bool enabled, Mk make)
{
    vrf::Round R(r);
    auto& rng = R.rng;
    int nt = rng.chance(15) ? 1 : static_cast<int>(rng.range(2, 3));
    std::vector<std::vector<Cycle>> scripts;
    static const int durs[] = {0, 50, 2000, -1000};  // a negative duration / a time point in the past: one attempt, no wait
    for (int t = 0; t < nt; t++) {
        std::vector<Cycle> sc;
        int n = static_cast<int>(rng.range(1, 4));
        for (int i = 0; i < n; i++) {
            Cycle c;
            c.shared = HAS_SHARED && (!HAS_EXCL || rng.chance(50));
            c.form = static_cast<int>(rng.below(NFORM));
            c.rel = static_cast<int>(rng.below(NREL));
            c.hold = static_cast<int>(rng.below(5));
            c.dur_us = durs[rng.below(4)];
            c.moved_from_first = rng.chance(50);
            c.submit_first = (fam == DEFERRED) && rng.chance(40);
            sc.push_back(c);
        }
        scripts.push_back(sc);
    }
    std::string pj = std::string("{\"wrapper\":\"") + FAMN[fam] + "\",\"mutex\":\"" + MUTN[mut] + "\",\"threads\":[";
    for (size_t t = 0; t < scripts.size(); t++) {
        if (t) pj += ",";
        pj += vrf::jarr(scripts[t].begin(), scripts[t].end(), cyc_json);
    }
    pj += "]}";
    R.program(pj);
    std::unique_ptr<W> w(make()), other(make());
    Stats st;
    // 'other' is private to each thread in turn only through try-acquisitions (may fail: then the assigned-over handle is null)
    for (size_t t = 0; t < scripts.size(); t++)
        R.spawn([&, t] { run_thread<W, M, HAS_EXCL, HAS_SHARED>(*w, *other, scripts[t], enabled, nt == 1, st); });
    R.run();
    if (vrf::global_held_count() != 0) vrf::violation("oracle:lock_leaked_at_quiescence", "{\"held\":" + std::to_string(vrf::global_held_count()) + "}");
    vrf::check_shadow();
    // the next acquirer succeeds
    vrf::run_checked(r, [&] {
        if constexpr (HAS_EXCL) {
            auto h = w->try_lock();
            if (!h) vrf::violation("oracle:lock_still_taken_after_all_handles_died", "{}");
        } else {
            auto h = w->try_lock_shared();
            if (!h) vrf::violation("oracle:lock_still_taken_after_all_handles_died", "{}");
        }
    });
    vrf::run_checked(r, [&] {
        w.reset();
        other.reset();
    });
    vrf::check_shadow();
    uint64_t sig = vrf::mixhash(vrf::mixhash(std::hash<std::string>()(pj), R.sched_sig), st.null.load() * 64 + st.nonnull.load());
    vrf::note(sig, st.null.load() > 0 || !enabled || nt == 1);
    vrf::count("handle_life_cycles", st.cycles.load());
    vrf::count("handles_null", st.null.load());
    vrf::count("handles_non_null", st.nonnull.load());
    if (st.nested.load()) vrf::count("nested_recursive_acquisitions", st.nested.load());
    vrf::count(std::string("rounds_") + FAMN[fam]);
    if (r % 5000 == 0) vrf::sample(pj);
}

template<class M>
static void dispatch_fam(long r, int fam, int mut)
{
    switch (fam) {
        case GUARDED: round_on<guarded<Cell, M>, M, true, false>(r, fam, mut, true, [] { return new guarded<Cell, M>(true); }); break;
        case GUARDED_OPT_ON:
            if (r % 2) round_on<guarded_opt<Cell, M>, M, true, false>(r, fam, mut, true, [] { return new guarded_opt<Cell, M>(true); });
            else round_on<guarded_opt<Cell, M>, M, true, false>(r, fam, mut, true, [] { return new guarded_opt<Cell, M>(true, true); });
            break;
        case GUARDED_OPT_OFF:  // both constructors: flag only / flag + forwarded arguments
            if (r % 2) round_on<guarded_opt<Cell, M>, M, true, false>(r, fam, mut, false, [] { return new guarded_opt<Cell, M>(false); });
            else round_on<guarded_opt<Cell, M>, M, true, false>(r, fam, mut, false, [] { return new guarded_opt<Cell, M>(false, false); });
            break;
        case SHARED: round_on<shared_guarded<Cell, M>, M, true, true>(r, fam, mut, true, [] { return new shared_guarded<Cell, M>(false); }); break;
        case SHARED_OPT_ON:  // default argument (locking enabled), explicit flag, flag + forwarded arguments
            if (r % 3 == 0) round_on<shared_guarded_opt<Cell, M>, M, true, true>(r, fam, mut, true, [] { return new shared_guarded_opt<Cell, M>(); });
            else if (r % 3 == 1) round_on<shared_guarded_opt<Cell, M>, M, true, true>(r, fam, mut, true, [] { return new shared_guarded_opt<Cell, M>(true); });
            else round_on<shared_guarded_opt<Cell, M>, M, true, true>(r, fam, mut, true, [] { return new shared_guarded_opt<Cell, M>(true, false); });
            break;
        case SHARED_OPT_OFF:
            if (r % 2) round_on<shared_guarded_opt<Cell, M>, M, true, true>(r, fam, mut, false, [] { return new shared_guarded_opt<Cell, M>(false); });
            else round_on<shared_guarded_opt<Cell, M>, M, true, true>(r, fam, mut, false, [] { return new shared_guarded_opt<Cell, M>(false, false); });
            break;
        case ORDERED: round_on<ordered_guarded<Cell, M>, M, false, true>(r, fam, mut, true, [] { return new ordered_guarded<Cell, M>(false); }); break;
        default: round_on<deferred_guarded<Cell, M>, M, false, true>(r, fam, mut, true, [] { return new deferred_guarded<Cell, M>(false); }); break;
    }
}

template<class M>
static void dispatch_excl(long r, int fam, int mut)
{
    switch (fam) {
        case GUARDED: round_on<guarded<Cell, M>, M, true, false>(r, fam, mut, true, [] { return new guarded<Cell, M>(true); }); break;
        case GUARDED_OPT_ON: round_on<guarded_opt<Cell, M>, M, true, false>(r, fam, mut, true, [] { return new guarded_opt<Cell, M>(true, true); }); break;
        default: round_on<guarded_opt<Cell, M>, M, true, false>(r, fam, mut, false, [] { return new guarded_opt<Cell, M>(false, false); }); break;
    }
}

int main(int argc, char** argv)
{
    vrf::init(argc, argv, "C08");
    for (long r = 0; r < vrf::cfg.rounds; r++) {
        if (!vrf::want_round(r)) continue;
        int combo = static_cast<int>((static_cast<uint64_t>(r) + static_cast<uint64_t>(vrf::cfg.proc) * 11) % 38);
        int fam = combo / 4, mut = combo % 4;
        if (combo >= 32) {  // the exclusive-only wrappers over the recursive mutex types
            fam = (combo - 32) / 2;
            mut = 4 + (combo - 32) % 2;
            if (mut == 4) dispatch_excl<vrf::recursive_mutex_t>(r, fam, mut);
            else dispatch_excl<vrf::recursive_timed_mutex_t>(r, fam, mut);
            continue;
        }
        switch (mut) {
            case 0: dispatch_fam<vrf::mutex_t>(r, fam, mut); break;
            case 1: dispatch_fam<vrf::timed_mutex_t>(r, fam, mut); break;
            case 2: dispatch_fam<vrf::shared_mutex_t>(r, fam, mut); break;
            default: dispatch_fam<vrf::shared_timed_mutex_t>(r, fam, mut); break;
        }
    }
    vrf::finish();
}
