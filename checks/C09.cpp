// C09 — Barrier releases a generation only when every participant has arrived.
#include "all_headers.hpp"
#include "vrf.hpp"
using gmlc::concurrency::Barrier;

int main(int argc, char** argv)
{
    vrf::init(argc, argv, "C09");
    for (long r = 0; r < vrf::cfg.rounds; r++) {
        if (!vrf::want_round(r)) continue;
        vrf::Round R(r);
        auto& rng = R.rng;
        int N = static_cast<int>(rng.range(2, 6));
        int G = static_cast<int>(rng.range(2, 6));
        std::vector<int> drop(static_cast<size_t>(N));   // generation (1-based) at which the thread calls wait_and_drop; G+1: never
        std::vector<int> delay(static_cast<size_t>(N));
        bool keep_one = true;
        for (int i = 0; i < N; i++) {
            drop[static_cast<size_t>(i)] = rng.chance(45) ? static_cast<int>(rng.range(1, G)) : G + 1;
            delay[static_cast<size_t>(i)] = static_cast<int>(rng.below(4));
        }
        if (keep_one) drop[rng.below(static_cast<uint64_t>(N))] = G + 1;  // the threshold never reaches zero
        std::vector<int> required(static_cast<size_t>(G) + 2, 0);
        for (int n = 1; n <= G; n++)
            for (int i = 0; i < N; i++)
                if (drop[static_cast<size_t>(i)] >= n) required[static_cast<size_t>(n)]++;
        std::string pj = "{\"threads\":" + std::to_string(N) + ",\"generations\":" + std::to_string(G) + ",\"drop_at\":" + vrf::jnums(drop) + ",\"delay\":" + vrf::jnums(delay) + "}";
        R.program(pj);
        std::unique_ptr<Barrier> B(new Barrier(static_cast<size_t>(N)));
        std::vector<std::atomic<int>> arrivals(static_cast<size_t>(G) + 2);
        for (auto& a : arrivals) a.store(0);
        std::atomic<uint64_t> cvw{0};
        for (int i = 0; i < N; i++) {
            R.spawn([&, i] {
                uint64_t before = vrf::stats().cv_waits;
                for (int n = 1; n <= G; n++) {
                    bool dropping = (drop[static_cast<size_t>(i)] == n);
                    if (delay[static_cast<size_t>(i)] && (n % 2 == i % 2))
                        for (int d = 0; d < delay[static_cast<size_t>(i)]; d++) vrf::hyield();
                    arrivals[static_cast<size_t>(n)].fetch_add(1, std::memory_order_relaxed);
                    if (dropping) B->wait_and_drop();
                    else B->wait();
                    int a = arrivals[static_cast<size_t>(n)].load(std::memory_order_relaxed);
                    if (a != required[static_cast<size_t>(n)])
                        vrf::violation("oracle:barrier_released_before_all_participants_arrived",
                                       "{\"generation\":" + std::to_string(n) + ",\"arrived\":" + std::to_string(a) + ",\"required\":" + std::to_string(required[static_cast<size_t>(n)]) + ",\"thread\":" + std::to_string(i) + "}");
                    if (dropping) break;
                }
                cvw.fetch_add(vrf::stats().cv_waits - before, std::memory_order_relaxed);
            });
        }
        R.run();
        if (vrf::global_held_count() != 0) vrf::violation("oracle:lock_leaked_at_quiescence", "{}");
        bool drops = false;
        for (int i = 0; i < N; i++)
            if (drop[static_cast<size_t>(i)] <= G) drops = true;
        vrf::note(vrf::mixhash(std::hash<std::string>()(pj), R.sched_sig), cvw.load() > 0);
        vrf::count("generations_completed", static_cast<uint64_t>(G));
        vrf::count("condvar_waits", cvw.load());
        if (drops) vrf::count("rounds_with_drops");
        if (r % 5000 == 0) vrf::sample(pj);
    }
    vrf::finish();
}
