// C10 — Latch opens exactly when the count is reached and never loses a wake-up.
#include "all_headers.hpp"
#include "vrf.hpp"
using gmlc::concurrency::Latch;

int main(int argc, char** argv)
{
    vrf::init(argc, argv, "C10");
    uint64_t blocked_waits = 0, fast_waits = 0;
    for (long r = 0; r < vrf::cfg.rounds; r++) {
        if (!vrf::want_round(r)) continue;
        vrf::Round R(r);
        auto& rng = R.rng;
        int count = static_cast<int>(rng.range(0, 4));
        int nt = static_cast<int>(rng.range(2, 6));
        // scripts: a = arrive, w = wait, b = arrive_and_wait, d = delay
        std::vector<std::string> scripts(static_cast<size_t>(nt));
        int arrivals = 0;
        for (int t = 0; t < nt; t++) {
            int n = static_cast<int>(rng.range(1, 3));
            for (int i = 0; i < n; i++) {
                unsigned k = static_cast<unsigned>(rng.below(100));
                if (k < 20) scripts[static_cast<size_t>(t)] += 'd';
                if (k < 40) {
                    scripts[static_cast<size_t>(t)] += 'a';
                    arrivals++;
                } else if (k < 75) scripts[static_cast<size_t>(t)] += 'w';
                else {
                    scripts[static_cast<size_t>(t)] += 'b';
                    arrivals++;
                }
            }
        }
        // enough arrivals that are not stuck behind the same thread's own wait, so that the program itself can terminate
        int free_arrivals = 0;
        for (auto& sc : scripts) {
            for (char c : sc) {
                if (c == 'a') free_arrivals++;
                else if (c == 'b') {
                    free_arrivals++;
                    break;
                } else if (c == 'w') break;
            }
        }
        for (int t = 0; free_arrivals < count; t = (t + 1) % nt) {
            scripts[static_cast<size_t>(t)] = "a" + scripts[static_cast<size_t>(t)];
            free_arrivals++;
            arrivals++;
        }
        // late waiter: waits after everything else (fast path)
        bool late = rng.chance(40);
        std::string pj = "{\"count\":" + std::to_string(count) + ",\"late_waiter\":" + (late ? "1" : "0") + ",\"threads\":" +
            vrf::jarr(scripts.begin(), scripts.end(), [](const std::string& s) { return vrf::jstr(s); }) + "}";
        R.program(pj);
        std::unique_ptr<Latch> L(new Latch(count));
        std::atomic<int> arrive_calls{0}, threads_done{0};
        std::atomic<uint64_t> cvwaits{0}, waits{0};
        auto do_wait = [&](bool combined) {
            uint64_t before = vrf::stats().cv_waits;
            if (combined) {
                arrive_calls.fetch_add(1, std::memory_order_relaxed);
                L->arrive_and_wait();
            } else L->wait();
            int seen = arrive_calls.load(std::memory_order_relaxed);
            if (seen < count)
                vrf::violation("oracle:wait_returned_before_count_arrivals", "{\"arrive_calls_invoked\":" + std::to_string(seen) + ",\"count\":" + std::to_string(count) + "}");
            cvwaits.fetch_add(vrf::stats().cv_waits - before, std::memory_order_relaxed);
            waits.fetch_add(1, std::memory_order_relaxed);
        };
        for (int t = 0; t < nt; t++) {
            R.spawn([&, t] {
                for (char c : scripts[static_cast<size_t>(t)]) {
                    if (c == 'd') {
                        for (int i = 0; i < 3; i++) vrf::hyield();
                    } else if (c == 'a') {
                        uint64_t before = vrf::stats().cv_waits;
                        arrive_calls.fetch_add(1, std::memory_order_relaxed);
                        L->arrive();
                        if (vrf::stats().cv_waits != before) vrf::violation("oracle:arrive_waited_on_the_condition_variable", "{}");
                    } else if (c == 'w') do_wait(false);
                    else do_wait(true);
                }
                threads_done.fetch_add(1, std::memory_order_relaxed);
            });
        }
        if (late) {
            R.spawn([&] {
                vrf::spin_until([&] { return threads_done.load(std::memory_order_relaxed) == nt; });
                uint64_t before = vrf::stats().cv_waits, lc = vrf::stats().lock_calls;
                L->wait();
                if (vrf::stats().cv_waits != before) vrf::violation("oracle:late_waiter_blocked_on_open_latch", "{}");
                (void)lc;
                if (arrive_calls.load(std::memory_order_relaxed) < count) vrf::violation("oracle:wait_returned_before_count_arrivals", "{}");
            });
        }
        R.run();
        if (vrf::global_held_count() != 0) vrf::violation("oracle:lock_leaked_at_quiescence", "{}");
        blocked_waits += cvwaits.load();
        fast_waits += (late ? 1 : 0);
        vrf::note(vrf::mixhash(vrf::mixhash(std::hash<std::string>()(pj), R.sched_sig), cvwaits.load()), cvwaits.load() > 0);
        vrf::count("waits", waits.load());
        vrf::count("condvar_waits_inside_wait", cvwaits.load());
        vrf::count("late_fast_path_waits", late ? 1 : 0);
        if (r % 5000 == 0) vrf::sample(pj);
    }
    vrf::threshold("condvar_waits_inside_wait", blocked_waits, 3);
    vrf::threshold("late_fast_path_waits", fast_waits, 3);
    vrf::finish();
}
