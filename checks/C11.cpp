// C11 — TriggerVariable waits end only on their event, and the event wakes them.
#include "all_headers.hpp"
#include "vrf.hpp"
using gmlc::concurrency::TriggerVariable;

struct Stamps {
    std::atomic<uint64_t> act_call{0}, act_ret{0}, trig_call{0}, trig_ret{0}, reset_call{0}, reset_ret{0};
    // order of critical sections: sequence number of the event's acquisition of the mutex the waiters re-check under
    // (the shim numbers the acquisitions of a mutex while it is held)
    std::atomic<uint64_t> act_lock_seq{0}, trig_lock_seq{0};
};
static uint64_t first_nonzero_min(uint64_t a, uint64_t b)
{
    if (a == 0) return b;
    if (b == 0) return a;
    return std::min(a, b);
}

// one activation cycle on tv: activation waiters -> activate -> trigger waiters, triggerer / resetter
static void phase(long ridx, TriggerVariable& tv, bool starts_active, uint64_t& cvwaits_out, uint64_t& timed_false_out)
{
    vrf::Round R(ridx);
    auto& rng = R.rng;
    int n_actw = starts_active ? 0 : static_cast<int>(rng.range(0, 2));
    int n_trgw = static_cast<int>(rng.range(1, 3));
    int finisher = static_cast<int>(rng.below(3));  // 0 trigger, 1 reset, 2 trigger then reset
    int act_delay = static_cast<int>(rng.below(5)), fin_delay = static_cast<int>(rng.below(6));
    std::vector<int> forms, gates;
    for (int i = 0; i < n_actw + n_trgw; i++) forms.push_back(static_cast<int>(rng.below(4)));  // 0 untimed, 1 timed short, 2 timed long, 3 timed with a negative duration
    // how a trigger waiter learns that the variable is activated: 0 activate() has returned, 1 it polled isActive(), 2 its own waitActivation() returned
    for (int i = 0; i < n_trgw; i++) gates.push_back(static_cast<int>(rng.below(3)));
    std::string pj = "{\"starts_active\":" + std::to_string(starts_active) + ",\"activation_waiters\":" + std::to_string(n_actw) + ",\"trigger_waiters\":" +
        std::to_string(n_trgw) + ",\"finisher\":" + std::to_string(finisher) + ",\"forms\":" + vrf::jnums(forms) + ",\"gates\":" + vrf::jnums(gates) + ",\"act_delay\":" + std::to_string(act_delay) +
        ",\"fin_delay\":" + std::to_string(fin_delay) + "}";
    R.program(pj);
    Stamps st;
    std::atomic<uint64_t> cvw{0}, timed_false{0};
    std::atomic<int> actw_done{0}, gate_passed{0};
    // serial engine: which untimed activation waiters were already parked in their wait when activate() was invoked. Those
    // are "already blocked on the event": the activation releases them even if a reset follows before they get to run.
    std::atomic<int> actw_vtid[8], actw_finished[8], actw_parked_before_activation[8];
    for (int i = 0; i < 8; i++) {
        actw_vtid[i].store(-1);
        actw_finished[i].store(0);
        actw_parked_before_activation[i].store(0);
    }
    static const int durs_ms[] = {0, 0, 1, 50, -1};
    if (starts_active) {
        st.act_call.store(1);
        st.act_ret.store(1);
    } else {
        // trigger() on an inactive variable has no effect and returns false
        bool was = tv.isTriggered();
        if (tv.trigger()) vrf::violation("oracle:trigger_on_inactive_variable_returned_true", "{}");
        if (tv.isTriggered() != was) vrf::violation("oracle:trigger_on_inactive_variable_changed_state", "{}");
        R.spawn([&] {
            for (int i = 0; i < act_delay; i++) vrf::hyield();
            for (int w = 0; w < n_actw && w < 8; w++)
                if (forms[static_cast<size_t>(w)] == 0 && vrf::serial_parked_in_cv_wait(actw_vtid[w].load(std::memory_order_relaxed))) {
                    actw_parked_before_activation[w].store(1, std::memory_order_relaxed);
                    vrf::count("activation_waiters_parked_before_activate");
                }
            st.act_call.store(vrf::now(), std::memory_order_relaxed);
            bool ok = tv.activate();
            st.act_lock_seq.store(vrf::ctx().last_lock_seq, std::memory_order_relaxed);  // activate()'s last acquisition: the activation mutex
            st.act_ret.store(vrf::now(), std::memory_order_relaxed);
            if (!ok) vrf::violation("oracle:activate_on_inactive_variable_returned_false", "{}");
        });
    }
    for (int i = 0; i < n_actw; i++) {
        R.spawn([&, i] {
            uint64_t before = vrf::stats().cv_waits;
            int form = forms[static_cast<size_t>(i)];
            if (i < 8) actw_vtid[i].store(vrf::ctx().vtid, std::memory_order_relaxed);
            uint64_t call = vrf::now();
            bool ok = true;
            uint64_t forced0 = vrf::ctx().forced_cv_timeouts;
            if (form == 0) tv.waitActivation();
            else ok = tv.wait_forActivation(std::chrono::milliseconds(durs_ms[form + 1]));
            // the event wakes its waiters: a timed wait that reports the event, but was only let go because every other thread
            // had come to rest and the scheduler had to fire its time-out, slept through the notification
            if (ok && vrf::ctx().forced_cv_timeouts != forced0)
                vrf::violation("oracle:waiter_released_only_by_its_time_out_although_its_event_had_happened", "{\"wait\":\"wait_forActivation\"}");
            uint64_t ret = vrf::now();
            uint64_t ac = st.act_call.load(std::memory_order_relaxed), ar = st.act_ret.load(std::memory_order_relaxed);
            if (ok) {
                if (ac == 0 || (vrf::clock_is_sync() && ret < ac))
                    vrf::violation("oracle:waitActivation_returned_before_activate_was_invoked", "{\"form\":" + std::to_string(form) + "}");
            } else {
                timed_false.fetch_add(1, std::memory_order_relaxed);
                if (vrf::clock_is_sync() && ar != 0 && ar < call)
                    vrf::violation("oracle:timed_activation_wait_false_although_activated_before_the_call", "{}");
                // "false only if the event had not happened when it gave up": the waiter gives up under the activation mutex; if
                // activate()'s critical section on that mutex came before the waiter's last one, the waiter must have seen it
                uint64_t es = st.act_lock_seq.load(std::memory_order_relaxed);
                if (es != 0 && es < vrf::ctx().last_lock_seq)
                    vrf::violation("oracle:timed_activation_wait_false_although_activated_before_it_gave_up", "{\"form\":" + std::to_string(form) + "}");
            }
            cvw.fetch_add(vrf::stats().cv_waits - before, std::memory_order_relaxed);
            if (i < 8) actw_finished[i].store(1, std::memory_order_relaxed);
            actw_done.fetch_add(1, std::memory_order_relaxed);
        });
    }
    for (int i = 0; i < n_trgw; i++) {
        R.spawn([&, i] {
            uint64_t before = vrf::stats().cv_waits;
            int form = forms[static_cast<size_t>(n_actw + i)];
            // wait() is specified on an activated variable: the waiter first learns (in one of three ways) that it is activated
            int gate = gates[static_cast<size_t>(i)];
            if (gate == 0) vrf::spin_until([&] { return st.act_ret.load(std::memory_order_relaxed) != 0; });
            else if (gate == 1) vrf::spin_until([&] { return tv.isActive(); });
            else tv.waitActivation();
            gate_passed.fetch_add(1, std::memory_order_relaxed);
            uint64_t call = vrf::now();
            bool ok = true;
            uint64_t forced0 = vrf::ctx().forced_cv_timeouts;
            if (form == 0) ok = tv.wait();
            else ok = tv.wait_for(std::chrono::milliseconds(durs_ms[form + 1]));
            if (ok && vrf::ctx().forced_cv_timeouts != forced0)
                vrf::violation("oracle:waiter_released_only_by_its_time_out_although_its_event_had_happened", "{\"wait\":\"wait_for\"}");
            uint64_t ret = vrf::now();
            uint64_t ev_call = first_nonzero_min(st.trig_call.load(std::memory_order_relaxed), st.reset_call.load(std::memory_order_relaxed));
            uint64_t ev_ret = first_nonzero_min(st.trig_ret.load(std::memory_order_relaxed), st.reset_ret.load(std::memory_order_relaxed));
            if (ok) {
                if (ev_call == 0 || (vrf::clock_is_sync() && ret < ev_call))
                    vrf::violation("oracle:wait_returned_before_any_trigger_or_reset_was_invoked", "{\"form\":" + std::to_string(form) + "}");
            } else {
                timed_false.fetch_add(1, std::memory_order_relaxed);
                if (form == 0) vrf::violation("oracle:untimed_wait_returned_false", "{}");
                if (vrf::clock_is_sync() && ev_ret != 0 && ev_ret < call)
                    vrf::violation("oracle:timed_wait_false_although_triggered_before_the_call", "{}");
                uint64_t es = st.trig_lock_seq.load(std::memory_order_relaxed);
                if (es != 0 && es < vrf::ctx().last_lock_seq)
                    vrf::violation("oracle:timed_wait_false_although_triggered_before_it_gave_up", "{\"form\":" + std::to_string(form) + "}");
            }
            cvw.fetch_add(vrf::stats().cv_waits - before, std::memory_order_relaxed);
        });
    }
    R.spawn([&] {
        vrf::spin_until([&] { return st.act_ret.load(std::memory_order_relaxed) != 0; });
        for (int i = 0; i < fin_delay; i++) vrf::hyield();
        if (finisher == 0 || finisher == 2) {
            st.trig_call.store(vrf::now(), std::memory_order_relaxed);
            bool ok = tv.trigger();
            st.trig_lock_seq.store(vrf::ctx().last_lock_seq, std::memory_order_relaxed);  // trigger()'s only acquisition: the trigger mutex
            st.trig_ret.store(vrf::now(), std::memory_order_relaxed);
            if (!ok) vrf::violation("oracle:trigger_on_active_variable_returned_false", "{}");
            if (!tv.isTriggered()) vrf::violation("oracle:not_triggered_after_trigger_returned", "{}");
        }
        if (finisher == 1 || finisher == 2) {
            for (int i = 0; i < fin_delay / 2; i++) vrf::hyield();
            // a waiter that starts waiting for activation after the reset would (rightly) wait for the next activation:
            // the reset is issued only once the activation waiters of this cycle are through
            // (a waiter that was parked in waitActivation() before activate() was invoked is not waited for: the activation
            // has to release it whatever follows)
            vrf::spin_until([&] {
                for (int w = 0; w < n_actw; w++) {
                    bool through = (w < 8) ? actw_finished[w].load(std::memory_order_relaxed) != 0 : false;
                    bool blocked_before = (w < 8) && actw_parked_before_activation[w].load(std::memory_order_relaxed) != 0;
                    if (w >= 8 && actw_done.load(std::memory_order_relaxed) != n_actw) return false;
                    if (w < 8 && !through && !blocked_before) return false;
                }
                return true;
            });
            // likewise a trigger waiter that has not yet seen the variable active (polling isActive / in waitActivation) would,
            // after the reset, rightly wait for the next activation
            vrf::spin_until([&] { return gate_passed.load(std::memory_order_relaxed) == n_trgw; });
            st.reset_call.store(vrf::now(), std::memory_order_relaxed);
            tv.reset();
            st.reset_ret.store(vrf::now(), std::memory_order_relaxed);
            if (tv.isActive()) vrf::violation("oracle:active_after_reset_returned", "{}");
        }
    });
    R.run();
    if (vrf::global_held_count() != 0) vrf::violation("oracle:lock_leaked_at_quiescence", "{}");
    // activating a variable that is already active is refused and changes nothing (in particular it does not take a trigger
    // back, which would strand a waiter arriving later)
    if (tv.isActive()) {
        bool trig = tv.isTriggered();
        vrf::run_checked(ridx, [&] {
            if (tv.activate()) vrf::violation("oracle:activate_on_active_variable_returned_true", "{}");
        });
        if (!tv.isActive() || tv.isTriggered() != trig) vrf::violation("oracle:refused_activate_changed_the_state", "{}");
        if (trig) {
            vrf::run_checked(ridx, [&] {
                tv.wait();  // the event has happened: returns at once
                if (!tv.wait_for(std::chrono::milliseconds(0))) vrf::violation("oracle:timed_wait_false_on_a_triggered_variable", "{}");
            });
        }
    }
    cvwaits_out = cvw.load();
    timed_false_out = timed_false.load();
    vrf::note(vrf::mixhash(vrf::mixhash(std::hash<std::string>()(pj), R.sched_sig), cvw.load() * 8 + timed_false.load()), cvw.load() > 0);
    vrf::count("condvar_waits", cvw.load());
    vrf::count("timed_waits_returned_false", timed_false.load());
    vrf::count(finisher == 0 ? "phases_trigger" : finisher == 1 ? "phases_reset" : "phases_trigger_then_reset");
    if (ridx % 5000 == 0) vrf::sample(pj);
    // quiesce for the next activation cycle
    vrf::run_checked(ridx, [&] { tv.reset(); });
    if (tv.isActive()) vrf::violation("oracle:active_after_reset_returned", "{\"where\":\"between phases\"}");
}

int main(int argc, char** argv)
{
    vrf::init(argc, argv, "C11");
    uint64_t tot_cv = 0, tot_tf = 0;
    for (long r = 0; r < vrf::cfg.rounds; r++) {
        if (!vrf::want_round(r)) continue;
        vrf::Rng pr = vrf::round_rng(r * 3 + 2);
        bool starts_active = pr.chance(20);
        std::unique_ptr<TriggerVariable> tv(new TriggerVariable(starts_active));
        int phases = static_cast<int>(pr.range(1, 3));
        for (int p = 0; p < phases; p++) {
            uint64_t cv = 0, tf = 0;
            phase(r, *tv, starts_active && p == 0, cv, tf);
            tot_cv += cv;
            tot_tf += tf;
        }
    }
    vrf::threshold("condvar_waits", tot_cv, 5);
    vrf::finish();
}
