// C12 — rcu_list traversals are consistent and writers are serialised.
#include "rcu_common.hpp"
using namespace rcu;

static bool acyclic(const std::map<uint32_t, std::set<uint32_t>>& g, std::vector<uint32_t>& cycle_out)
{
    std::map<uint32_t, int> state;  // 0 new 1 on stack 2 done
    std::vector<uint32_t> stack;
    std::function<bool(uint32_t)> dfs = [&](uint32_t u) {
        state[u] = 1;
        stack.push_back(u);
        auto it = g.find(u);
        if (it != g.end())
            for (uint32_t v : it->second) {
                if (state[v] == 1) {
                    auto p = std::find(stack.begin(), stack.end(), v);
                    cycle_out.assign(p, stack.end());
                    return false;
                }
                if (state[v] == 0 && !dfs(v)) return false;
            }
        stack.pop_back();
        state[u] = 2;
        return true;
    };
    for (auto& kv : g)
        if (state[kv.first] == 0 && !dfs(kv.first)) return false;
    return true;
}

template<class T>
static void conc_round(long r)
{
    vrf::Round R(r);
    Program p = gen_program(R.rng, 100);
    std::unique_ptr<Fixture<T>> fx(new Fixture<T>());
    uint32_t next_id = 1;
    fx->seed_initial(p.initial, next_id);
    R.program("{\"T\":\"" + std::string(Val<T>::name()) + "\",\"prog\":" + p.json() + "}");
    for (size_t t = 0; t < p.scripts.size(); t++) R.spawn([&fx, &p, t] { fx->run_script(static_cast<int>(t), p.scripts[t]); });
    R.run();
    std::vector<uint32_t> fin;
    vrf::run_checked(r, [&] { fin = fx->final_contents(); });
    // ---- what happened
    std::set<uint32_t> inserted(fx->initial.begin(), fx->initial.end());
    std::set<uint32_t> erased;
    std::vector<const MutEvent*> pushes, erases;
    for (int t = 0; t < vrf::MAXT; t++)
        for (auto& m : fx->muts[t]) {
            if (m.kind == 'E') {
                erased.insert(m.id);
                erases.push_back(&m);
            } else {
                inserted.insert(m.id);
                pushes.push_back(&m);
            }
        }
    // final contents = inserted - erased, each once
    {
        std::multiset<uint32_t> f(fin.begin(), fin.end());
        std::multiset<uint32_t> want;
        for (auto v : inserted)
            if (!erased.count(v)) want.insert(v);
        if (f != want)
            vrf::violation("oracle:final_contents_not_a_sequential_outcome", "{\"final\":" + vrf::jnums(fin) + ",\"inserted\":" + vrf::jnums(inserted) + ",\"erased\":" + vrf::jnums(erased) + "}");
    }
    // ---- order constraints
    std::map<uint32_t, std::set<uint32_t>> g;
    auto edge = [&](uint32_t a, uint32_t b) {
        if (a != b) g[a].insert(b);
    };
    auto is_front = [](char k) { return k == 'F' || k == 'f'; };
    for (size_t i = 0; i + 1 < fx->initial.size(); i++) edge(fx->initial[i], fx->initial[i + 1]);
    for (auto* m : pushes) {
        for (auto v : fx->initial) {
            if (is_front(m->kind)) edge(m->id, v);
            else edge(v, m->id);
        }
        for (auto* o : pushes) {
            if (o == m) continue;
            if (is_front(m->kind) && !is_front(o->kind)) edge(m->id, o->id);
            bool m_before_o = (m->thread == o->thread && m->id < o->id) || (vrf::clock_is_sync() && m->ret < o->call);
            if (m_before_o && is_front(m->kind) && is_front(o->kind)) edge(o->id, m->id);  // the later front push ends up in front
            if (m_before_o && !is_front(m->kind) && !is_front(o->kind)) edge(m->id, o->id);
        }
    }
    auto add_sequence = [&](const std::vector<uint32_t>& s) {
        for (size_t i = 0; i + 1 < s.size(); i++) edge(s[i], s[i + 1]);
    };
    add_sequence(fin);
    uint64_t ntrav = 0, concurrent_trav = 0;
    for (int t = 0; t < vrf::MAXT; t++) {
        for (auto& tv : fx->trav[t]) {
            ntrav++;
            std::set<uint32_t> seen_set;
            for (auto v : tv.seen) {
                if (!inserted.count(v))
                    vrf::violation("oracle:traversal_saw_value_never_inserted", "{\"value\":" + std::to_string(v) + ",\"seen\":" + vrf::jnums(tv.seen) + "}");
                if (!seen_set.insert(v).second)
                    vrf::violation("oracle:traversal_saw_element_twice", "{\"value\":" + std::to_string(v) + ",\"seen\":" + vrf::jnums(tv.seen) + "}");
            }
            add_sequence(tv.seen);
            bool conc = false;
            for (auto* m : pushes)
                if (m->call < tv.ret && tv.call < m->ret) conc = true;
            for (auto* m : erases)
                if (m->call < tv.ret && tv.call < m->ret) conc = true;
            if (conc) concurrent_trav++;
            if (tv.complete && vrf::clock_is_sync()) {
                // every element that is in the list for the whole traversal must be visited
                for (auto v : inserted) {
                    bool in_before = std::find(fx->initial.begin(), fx->initial.end(), v) != fx->initial.end();
                    for (auto* m : pushes)
                        if (m->id == v && m->ret < tv.call) in_before = true;
                    if (!in_before) continue;
                    bool erase_started = false;
                    for (auto* m : erases)
                        if (m->id == v && m->call < tv.ret) erase_started = true;
                    if (erase_started) continue;
                    if (!seen_set.count(v))
                        vrf::violation("oracle:traversal_skipped_a_stable_element", "{\"missing\":" + std::to_string(v) + ",\"seen\":" + vrf::jnums(tv.seen) + ",\"final\":" + vrf::jnums(fin) + "}");
                }
            }
        }
    }
    std::vector<uint32_t> cyc;
    if (!acyclic(g, cyc)) vrf::violation("oracle:observed_orders_contradict_each_other", "{\"cycle\":" + vrf::jnums(cyc) + ",\"final\":" + vrf::jnums(fin) + "}");
    vrf::run_checked(r, [&] { fx->g.reset(); });
    fx->as.reset();
    uint64_t sig = vrf::mixhash(p.hash(), R.sched_sig);
    for (auto v : fin) sig = vrf::mixhash(sig, v);
    vrf::note(sig, concurrent_trav > 0 || !vrf::clock_is_sync());
    vrf::count("traversals", ntrav);
    vrf::count("traversals_overlapping_a_mutation", concurrent_trav);
    vrf::count("pushes", pushes.size());
    vrf::count("erases", erases.size());
    if (r % 3000 == 0) {
        std::string obs = "{\"final_contents\":" + vrf::jnums(fin) + ",\"traversals\":[";
        bool first = true;
        for (int t = 0; t < vrf::MAXT; t++)
            for (auto& tv : fx->trav[t]) {
                obs += std::string(first ? "" : ",") + "{\"t\":" + std::to_string(t) + ",\"call\":" + std::to_string(tv.call) + ",\"ret\":" + std::to_string(tv.ret) + ",\"complete\":" + (tv.complete ? "1" : "0") + ",\"seen\":" + vrf::jnums(tv.seen) + "}";
                first = false;
            }
        obs += "]}";
        vrf::sample("{\"program\":" + vrf::res.cur_program + ",\"observed\":" + obs + "}");
    }
}

// single-threaded sequences against std::list, compared after every step
static void seq_round(long r)
{
    vrf::res.cur_round = r;
    vrf::Rng rng = vrf::round_rng(r);
    Fixture<int> fx;
    std::list<uint32_t> ref;
    uint32_t next_id = 1;
    std::string prog = "[";
    int n = static_cast<int>(rng.range(4, 30));
    std::unique_ptr<Fixture<int>::RH> parked;  // a handle parked on an element while the list changes
    for (int i = 0; i < n; i++) {
        unsigned roll = static_cast<unsigned>(rng.below(100));
        Fixture<int>::WH h(fx.g->lock_write());
        if (roll < 55 || ref.empty()) {
            uint32_t id = next_id++;
            unsigned k = static_cast<unsigned>(rng.below(4));
            if (k == 0) { h->push_front(static_cast<int>(id)); ref.push_front(id); }
            else if (k == 1) { h->push_back(static_cast<int>(id)); ref.push_back(id); }
            else if (k == 2) { h->emplace_front(static_cast<int>(id)); ref.push_front(id); }
            else { h->emplace_back(static_cast<int>(id)); ref.push_back(id); }
            prog += "\"push" + std::to_string(k) + "\",";
        } else {
            size_t k = rng.below(ref.size());
            auto it = h->begin();
            for (size_t j = 0; j < k; j++) ++it;
            auto rit = ref.begin();
            std::advance(rit, static_cast<long>(k));
            auto it_again = it;  // a second iterator on the same element (what a writer that lost a race for it holds)
            auto nxt = h->erase(it);
            auto rnext = ref.erase(rit);
            if (rng.chance(30)) {
                // erasing an element that was erased a moment ago changes nothing and still tells the caller where to go on
                auto nxt2 = h->erase(it_again);
                if ((nxt2 == h->end()) != (nxt == h->end()) || (nxt != h->end() && *nxt2 != *nxt))
                    vrf::violation("oracle:repeated_erase_returned_a_different_position", "{}");
                vrf::count("seq_repeated_erases");
            }
            // erase returns the iterator following the erased element
            if ((rnext == ref.end()) != (nxt == h->end()) || (rnext != ref.end() && static_cast<uint32_t>(*nxt) != *rnext))
                vrf::violation("oracle:erase_returned_wrong_iterator", "{}");
            prog += "\"erase@" + std::to_string(k) + "\",";
        }
        vrf::res.cur_program = "{\"ops\":" + prog + "\"...\"]}";
        std::vector<uint32_t> got;
        for (auto it = h->begin(); it != h->end(); ++it) got.push_back(static_cast<uint32_t>(*it));
        std::vector<uint32_t> want(ref.begin(), ref.end());
        if (got != want) vrf::violation("oracle:seq_contents_differ", "{\"got\":" + vrf::jnums(got) + ",\"want\":" + vrf::jnums(want) + "}");
    }
    fx.g.reset();
    fx.as.reset();
    uint64_t sig = 3;
    for (char c : prog) sig = vrf::mixhash(sig, static_cast<uint64_t>(c));
    vrf::note(sig, n >= 6);
    vrf::count("seq_steps_compared_with_std_list", static_cast<uint64_t>(n));
    if (r % 3000 == 0) vrf::sample(vrf::res.cur_program);
    vrf::res.rounds_done++;
}

// nested operations: the constructor of an element (user code that the list runs under its write mutex) inserts further
// elements into the same list, legal with the re-entrant mutex type the class documentation names. The nested operations
// overlap the outer one, so the outer insertion may take effect before, between or after them: the contents must equal
// one of those sequential results after every step.
struct Nest;
using NestList = gmlc::libguarded::rcu_list<Nest, vrf::recursive_mutex_t>;
using NestG = gmlc::libguarded::rcu_guarded<NestList>;
struct Nest {
    uint32_t id;
    Nest(uint32_t i, NestG* g, int children, unsigned how): id(i)
    {
        for (int c = 0; c < children; c++) {
            NestG::write_handle h(g->lock_write());
            uint32_t cid = i * 10 + static_cast<uint32_t>(c) + 1;
            if ((how >> c) & 1u) h->emplace_front(cid, nullptr, 0, 0u);
            else h->emplace_back(cid, nullptr, 0, 0u);
        }
    }
};
static void nested_round(long r)
{
    vrf::res.cur_round = r;
    vrf::Rng rng = vrf::round_rng(r);
    std::unique_ptr<NestG> g(new NestG());
    std::set<std::vector<uint32_t>> cands;
    cands.insert(std::vector<uint32_t>{});
    std::string prog = "[";
    uint32_t next = 1;
    int n = static_cast<int>(rng.range(2, 7));
    size_t nested_ops = 0;
    for (int i = 0; i < n; i++) {
        size_t size_now = cands.begin()->size();
        if (rng.chance(70) || size_now == 0) {
            uint32_t id = next++;
            int children = static_cast<int>(rng.below(3));
            unsigned how = static_cast<unsigned>(rng.below(4));
            bool front = rng.chance(50);
            {
                NestG::write_handle h(g->lock_write());
                if (front) h->emplace_front(id, g.get(), children, how);
                else h->emplace_back(id, g.get(), children, how);
            }
            nested_ops += static_cast<size_t>(children);
            std::set<std::vector<uint32_t>> nextc;
            for (const auto& c0 : cands)
                for (int at = 0; at <= children; at++) {
                    std::vector<uint32_t> c = c0;
                    for (int k = 0; k <= children; k++) {
                        if (k == at) {
                            if (front) c.insert(c.begin(), id);
                            else c.push_back(id);
                        }
                        if (k == children) break;
                        uint32_t cid = id * 10 + static_cast<uint32_t>(k) + 1;
                        if ((how >> k) & 1u) c.insert(c.begin(), cid);
                        else c.push_back(cid);
                    }
                    nextc.insert(std::move(c));
                }
            cands.swap(nextc);
            prog += std::string("\"emplace_") + (front ? "front" : "back") + "(" + std::to_string(id) + ", children=" + std::to_string(children) + ", how=" + std::to_string(how) + ")\",";
        } else {
            size_t k = rng.below(size_now);
            uint32_t victim = 0;
            {
                NestG::write_handle h(g->lock_write());
                auto it = h->begin();
                for (size_t j = 0; j < k && it != h->end(); j++) ++it;
                if (it != h->end()) {
                    victim = it->id;
                    h->erase(it);
                }
            }
            std::set<std::vector<uint32_t>> nextc;
            for (const auto& c0 : cands) {
                std::vector<uint32_t> c = c0;
                c.erase(std::remove(c.begin(), c.end(), victim), c.end());
                nextc.insert(std::move(c));
            }
            cands.swap(nextc);
            prog += "\"erase(" + std::to_string(victim) + ")\",";
        }
        vrf::res.cur_program = "{\"T\":\"nested (constructor re-enters the list), recursive_mutex\",\"ops\":" + prog + "\"...\"]}";
        std::vector<uint32_t> got;
        {
            NestG::read_handle h(g->lock_read());
            for (auto it = h->begin(); it != h->end(); ++it) got.push_back(it->id);
        }
        if (!cands.count(got))
            vrf::violation("oracle:nested_contents_match_no_sequential_order", "{\"got\":" + vrf::jnums(got) + ",\"one_expected\":" + vrf::jnums(*cands.begin()) + ",\"candidates\":" + std::to_string(cands.size()) + "}");
        // keep to the branch that was taken: later steps build on what the list really did
        cands.clear();
        cands.insert(got);
    }
    g.reset();
    uint64_t sig = 5;
    for (char c : prog) sig = vrf::mixhash(sig, static_cast<uint64_t>(c));
    vrf::note(sig, nested_ops > 0);
    vrf::count("nested_rounds");
    vrf::count("nested_insertions_from_element_constructors", nested_ops);
    if (r % 3000 == 3) vrf::sample(vrf::res.cur_program);
    vrf::res.rounds_done++;
}

int main(int argc, char** argv)
{
    vrf::init(argc, argv, "C12");
    for (long r = 0; r < vrf::cfg.rounds; r++) {
        if (!vrf::want_round(r)) continue;
        if (vrf::cfg.mode == "seq" && r % 4 == 3) nested_round(r);
        else if (vrf::cfg.mode == "seq") seq_round(r);
        else if (r % 6 == 5) conc_round<UVec>(r);
        else if (r % 3 == 2) conc_round<int>(r);
        else conc_round<vrf::Cell>(r);
    }
    vrf::finish();
}
