// C13 — rcu_list destroys and frees everything it allocated exactly once, for any T.
#include "rcu_common.hpp"
using namespace rcu;

static long g_cell_baseline = 0;

template<class T>
static void accounting(Fixture<T>& fx, uint64_t erases_effective, const char* phase)
{
    // destroy the list with every handle released
    fx.g.reset();
    size_t lb = fx.as.live_blocks(), lo = fx.as.live_objects();
    if (lb != 0 || lo != 0)
        vrf::violation("oracle:alloc_leak_after_list_destroyed",
                       "{\"phase\":\"" + std::string(phase) + "\",\"live_blocks\":" + std::to_string(lb) + ",\"live_objects\":" + std::to_string(lo) + "}");
    if (fx.as.allocs != fx.as.frees || fx.as.constructs != fx.as.destroys)
        vrf::violation("oracle:alloc_counts_differ", "{\"allocs\":" + std::to_string(fx.as.allocs) + ",\"frees\":" + std::to_string(fx.as.frees) + "}");
    uint64_t expect_rec = fx.handles_taken.load() + erases_effective;
    if (fx.as.rec_constructs != expect_rec || fx.as.rec_destroys != expect_rec)
        vrf::violation("oracle:record_count_mismatch", "{\"records_constructed\":" + std::to_string(fx.as.rec_constructs) + ",\"records_destroyed\":" +
                           std::to_string(fx.as.rec_destroys) + ",\"handles_plus_erases\":" + std::to_string(expect_rec) + "}");
    if (std::is_same<T, vrf::Cell>::value && vrf::g_cell_live.load() != g_cell_baseline)
        vrf::violation("oracle:element_instances_leaked_or_double_destroyed", "{\"live\":" + std::to_string(vrf::g_cell_live.load()) + "}");
    fx.as.reset();
}

// ---- sequential scripts with several handles alive at once
template<class T>
static void seq_script(vrf::Rng& rng, long round)
{
    Fixture<T> fx;
    using FX = Fixture<T>;
    uint32_t next_id = 1;
    std::vector<std::unique_ptr<typename FX::RH>> rh(4);
    std::vector<std::unique_ptr<typename FX::WH>> wh(2);
    std::list<uint32_t> ref;
    uint64_t erases = 0;
    std::string prog = "[";
    int nops = static_cast<int>(rng.range(3, 14));
    bool handles_only = rng.chance(15);
    uint64_t node_destroys_before = 0, node_constructs_before = 0;
    if (handles_only) {
        fx.seed_initial(static_cast<int>(rng.range(0, 3)), next_id);
        for (auto v : fx.initial) ref.push_back(v);
        node_destroys_before = fx.as.node_destroys;
        node_constructs_before = fx.as.node_constructs;
    }
    for (int i = 0; i < nops; i++) {
        unsigned roll = static_cast<unsigned>(rng.below(100));
        if (handles_only) roll = roll % 50;  // only take/release
        if (roll < 25) {
            size_t s = rng.below(rh.size());
            if (!rh[s]) {
                rh[s].reset(new typename FX::RH(fx.g->lock_read()));
                (void)(*rh[s])->begin();
                fx.handles_taken++;
                prog += "\"take r" + std::to_string(s) + "\",";
            }
        } else if (roll < 50) {
            size_t s = rng.below(rh.size());
            if (rh[s]) {
                rh[s].reset();
                prog += "\"release r" + std::to_string(s) + "\",";
            }
        } else if (roll < 58) {
            size_t s = rng.below(wh.size());
            if (!wh[s]) {
                wh[s].reset(new typename FX::WH(fx.g->lock_write()));
                (void)(*wh[s])->begin();
                fx.handles_taken++;
                prog += "\"take w" + std::to_string(s) + "\",";
            } else {
                wh[s].reset();
                prog += "\"release w" + std::to_string(s) + "\",";
            }
        } else if (roll < 80) {
            uint32_t id = next_id++;
            typename FX::WH h(fx.g->lock_write());
            unsigned k = static_cast<unsigned>(rng.below(4));
            // with the instance-counted element type the element's constructor sometimes throws while the node is being built:
            // nothing that was never constructed may be destroyed, the block must be given back, the list stays as it was
            bool inject = std::is_same<T, vrf::Cell>::value && rng.chance(20);
            bool threw = false;
            auto value = Val<T>::make(id);
            (void)h->begin();
            // the copy that builds the element inside the node is the one to fail: emplace_*(lvalue) (push_* take their
            // parameter by value - that copy is made by the caller - and move it into the node)
            if (inject && k < 2) k += 2;
            if (inject) vrf::fault_arm(1u << 1, 1);
            try {
                if (k == 0) h->push_front(value);
                else if (k == 1) h->push_back(value);
                else if (k == 2) h->emplace_front(value);
                else h->emplace_back(value);
            }
            catch (const vrf::Injected&) {
                threw = true;
            }
            if (inject) {
                vrf::fault_disarm();
                if (!threw) vrf::harness_error("element constructor fault was not reached");
                if (vrf::held_count() != 0) vrf::violation("oracle:lock_not_released_after_throw", "{\"op\":\"push with throwing element constructor\"}");
                vrf::count("pushes_with_throwing_element_constructor");
            } else if (k == 0 || k == 2) ref.push_front(id);
            else ref.push_back(id);
            fx.handles_taken++;
            prog += "\"push" + std::to_string(k) + " " + std::to_string(id) + (threw ? " (ctor throws)" : "") + "\",";
        } else if (!ref.empty()) {
            size_t k = rng.below(ref.size());
            typename FX::WH h(fx.g->lock_write());
            auto it = h->begin();
            fx.handles_taken++;
            for (size_t j = 0; j < k; j++) ++it;
            auto rit = ref.begin();
            std::advance(rit, static_cast<long>(k));
            if (Val<T>::id(*it) != *rit) vrf::violation("oracle:seq_contents_differ", "{}");
            h->erase(it);
            if (rng.chance(20)) h->erase(it);  // double erase of the same position is documented as guarded
            ref.erase(rit);
            erases++;
            prog += "\"erase@" + std::to_string(k) + "\",";
        }
        vrf::res.cur_program = "{\"T\":\"" + std::string(Val<T>::name()) + "\",\"ops\":" + prog + "\"...\"]}";
    }
    if (handles_only && (fx.as.node_destroys != node_destroys_before || fx.as.node_constructs != node_constructs_before))
        vrf::violation("oracle:node_destroyed_during_handle_only_activity", "{}");
    // contents check against the reference, then release everything in random order
    {
        auto fin = fx.final_contents();
        std::vector<uint32_t> r(ref.begin(), ref.end());
        if (fin != r) vrf::violation("oracle:seq_contents_differ", "{\"got\":" + vrf::jnums(fin) + ",\"want\":" + vrf::jnums(r) + "}");
    }
    std::vector<int> order;
    for (int s = 0; s < 6; s++) order.push_back(s);
    for (size_t i = order.size() - 1; i > 0; i--) std::swap(order[i], order[rng.below(i + 1)]);
    for (int s : order) {
        if (s < 4) rh[static_cast<size_t>(s)].reset();
        else wh[static_cast<size_t>(s - 4)].reset();
    }
    prog += "\"release-all\"]";
    vrf::res.cur_program = "{\"T\":\"" + std::string(Val<T>::name()) + "\",\"ops\":" + prog + "}";
    accounting(fx, erases, "seq");
    uint64_t sig = 1;
    for (char c : prog) sig = vrf::mixhash(sig, static_cast<uint64_t>(c));
    vrf::note(sig, erases > 0 || handles_only);
    if (handles_only) vrf::count("handle_only_scripts");
    vrf::count("erases", erases);
    if (round % 1500 == 0) vrf::sample(vrf::res.cur_program);
    vrf::res.rounds_done++;
}

// ---- std::allocator + std::string: the sanitizers are the only oracle (no tracking allocator in the way)
static void stdalloc_script(vrf::Rng& rng, long round)
{
    using L = rcu_list<std::string, vrf::mutex_t>;
    using G = rcu_guarded<L>;
    std::unique_ptr<G> g(new G());
    std::vector<std::unique_ptr<G::read_handle>> rh(4);
    std::string prog = "[";
    uint32_t next_id = 1;
    size_t size = 0;
    uint64_t erases = 0;
    int nops = static_cast<int>(rng.range(3, 12));
    for (int i = 0; i < nops; i++) {
        unsigned roll = static_cast<unsigned>(rng.below(100));
        size_t s = rng.below(rh.size());
        if (roll < 30) {
            if (!rh[s]) {
                rh[s].reset(new G::read_handle(g->lock_read()));
                (void)(*rh[s])->begin();
                prog += "\"take r" + std::to_string(s) + "\",";
            }
        } else if (roll < 55) {
            if (rh[s]) {
                rh[s].reset();
                prog += "\"release r" + std::to_string(s) + "\",";
            }
        } else if (roll < 80) {
            G::write_handle h(g->lock_write());
            if (rng.chance(50)) h->push_back(Val<std::string>::make(next_id++));
            else h->emplace_front(Val<std::string>::make(next_id++));
            size++;
            prog += "\"push\",";
        } else if (size > 0) {
            G::write_handle h(g->lock_write());
            auto it = h->begin();
            for (size_t j = rng.below(size); j > 0; j--) ++it;
            h->erase(it);
            size--;
            erases++;
            prog += "\"erase\",";
        }
        vrf::res.cur_program = "{\"T\":\"std::string/std::allocator\",\"ops\":" + prog + "\"...\"]}";
    }
    for (auto& h : rh) h.reset();
    g.reset();
    uint64_t sig = 7;
    for (char c : prog) sig = vrf::mixhash(sig, static_cast<uint64_t>(c));
    vrf::note(sig, true);
    vrf::count("stdalloc_scripts");
    vrf::count("erases", erases);
    if (round % 2000 == 0) vrf::sample(vrf::res.cur_program);
    vrf::res.rounds_done++;
}

// ---- composite elements: the element's constructor (user code running under the list's write mutex) inserts further
// elements into the same list; legal with a re-entrant mutex type such as std::recursive_mutex (named in the class docs)
struct Comp;
using CompList = rcu_list<Comp, vrf::recursive_mutex_t, vrf::TrackAlloc<Comp>>;
using CompG = rcu_guarded<CompList>;
static std::atomic<long> g_comp_live{0};
struct Comp {
    uint32_t id;
    Comp(uint32_t i, CompG* g, int children, unsigned how): id(i)
    {
        g_comp_live.fetch_add(1);
        for (int c = 0; c < children; c++) {
            CompG::write_handle h(g->lock_write());
            uint32_t cid = i * 10 + static_cast<uint32_t>(c) + 1;
            if ((how >> c) & 1u) h->emplace_front(cid, nullptr, 0, 0u);
            else h->emplace_back(cid, nullptr, 0, 0u);
        }
    }
    Comp(const Comp&) = delete;
    ~Comp() { g_comp_live.fetch_sub(1); }
};
static void composite_script(vrf::Rng& rng, long round)
{
    vrf::AllocState as;
    long base = g_comp_live.load();
    std::set<uint32_t> expect;
    std::string prog = "[";
    {
        std::unique_ptr<CompG> g(new CompG(vrf::TrackAlloc<Comp>(&as)));
        std::unique_ptr<CompG::read_handle> parked;
        int n = static_cast<int>(rng.range(2, 8));
        uint32_t next = 1;
        for (int i = 0; i < n; i++) {
            unsigned roll = static_cast<unsigned>(rng.below(100));
            if (roll < 65 || expect.empty()) {
                uint32_t id = next++;
                int children = static_cast<int>(rng.below(3));
                unsigned how = static_cast<unsigned>(rng.below(4));
                bool front = rng.chance(50);
                CompG::write_handle h(g->lock_write());
                if (front) h->emplace_front(id, g.get(), children, how);
                else h->emplace_back(id, g.get(), children, how);
                expect.insert(id);
                for (int c = 0; c < children; c++) expect.insert(id * 10 + static_cast<uint32_t>(c) + 1);
                prog += std::string("\"emplace_") + (front ? "front" : "back") + "(" + std::to_string(id) + ", children=" + std::to_string(children) + ")\",";
            } else if (roll < 85) {
                CompG::write_handle h(g->lock_write());
                auto it = h->begin();
                for (size_t k = rng.below(expect.size()); k > 0 && it != h->end(); k--) ++it;
                if (it != h->end()) {
                    expect.erase(it->id);
                    h->erase(it);
                    prog += "\"erase\",";
                }
            } else if (!parked) {
                parked.reset(new CompG::read_handle(g->lock_read()));
                (void)(*parked)->begin();
                prog += "\"take handle\",";
            } else {
                parked.reset();
                prog += "\"release handle\",";
            }
            vrf::res.cur_program = "{\"T\":\"composite (constructor re-enters the list), recursive_mutex\",\"ops\":" + prog + "\"...\"]}";
            // every element inserted and not erased is reachable, once
            std::multiset<uint32_t> got;
            {
                CompG::read_handle h(g->lock_read());
                for (auto it = h->begin(); it != h->end(); ++it) got.insert(it->id);
            }
            if (got != std::multiset<uint32_t>(expect.begin(), expect.end()))
                vrf::violation("oracle:elements_lost_or_duplicated", "{\"reachable\":" + vrf::jnums(got) + ",\"expected\":" + vrf::jnums(expect) + "}");
        }
        parked.reset();
    }
    if (as.live_blocks() != 0 || as.live_objects() != 0)
        vrf::violation("oracle:alloc_leak_after_list_destroyed", "{\"phase\":\"composite\",\"live_blocks\":" + std::to_string(as.live_blocks()) + "}");
    if (g_comp_live.load() != base)
        vrf::violation("oracle:element_instances_leaked_or_double_destroyed", "{\"live\":" + std::to_string(g_comp_live.load() - base) + "}");
    as.reset();
    uint64_t sig = 11;
    for (char c : prog) sig = vrf::mixhash(sig, static_cast<uint64_t>(c));
    vrf::note(sig, true);
    vrf::count("composite_scripts");
    if (round % 2000 == 0) vrf::sample(vrf::res.cur_program);
    vrf::res.rounds_done++;
}

// ---- exhaustive: k <= 4 handles, every release order, erases placed after each prefix of acquisitions
template<class T>
static void exhaustive_handles()
{
    using FX = Fixture<T>;
    for (int k = 1; k <= 4; k++) {
        std::vector<int> perm;
        for (int i = 0; i < k; i++) perm.push_back(i);
        do {
            for (int erase_after = -1; erase_after <= k; erase_after++) {      // -1: no erase; j: erase after j handles were taken
                for (int erase_between_release = -1; erase_between_release < k; erase_between_release++) {
                    FX fx;
                    uint32_t next_id = 1;
                    fx.seed_initial(3, next_id);
                    uint64_t erases = 0;
                    std::vector<std::unique_ptr<typename FX::RH>> hs(static_cast<size_t>(k));
                    auto do_erase = [&] {
                        typename FX::WH h(fx.g->lock_write());
                        auto it = h->begin();
                        fx.handles_taken++;
                        if (it != h->end()) {
                            h->erase(it);
                            erases++;
                        }
                    };
                    for (int i = 0; i < k; i++) {
                        if (erase_after == i) do_erase();
                        hs[static_cast<size_t>(i)].reset(new typename FX::RH(fx.g->lock_read()));
                        (void)(*hs[static_cast<size_t>(i)])->begin();
                        fx.handles_taken++;
                    }
                    if (erase_after == k) do_erase();
                    for (int i = 0; i < k; i++) {
                        hs[static_cast<size_t>(perm[static_cast<size_t>(i)])].reset();
                        if (erase_between_release == i) do_erase();
                    }
                    vrf::res.cur_program = "{\"T\":\"" + std::string(Val<T>::name()) + "\",\"handles\":" + std::to_string(k) + ",\"release_order\":" + vrf::jnums(perm) +
                        ",\"erase_after_acq\":" + std::to_string(erase_after) + ",\"erase_after_release\":" + std::to_string(erase_between_release) + "}";
                    accounting(fx, erases, "exhaustive");
                    uint64_t sig = vrf::mixhash(static_cast<uint64_t>(k) * 131 + static_cast<uint64_t>(erase_after + 2) * 17 + static_cast<uint64_t>(erase_between_release + 2), 0);
                    for (int v : perm) sig = vrf::mixhash(sig, static_cast<uint64_t>(v));
                    sig = vrf::mixhash(sig, std::hash<std::string>()(Val<T>::name()));
                    vrf::note(sig, true);
                    vrf::count("exhaustive_release_order_cases");
                    if (vrf::res.samples.size() < 2) vrf::sample(vrf::res.cur_program);
                    vrf::res.rounds_done++;
                }
            }
        } while (std::next_permutation(perm.begin(), perm.end()));
    }
}

// ---- concurrent tiny rounds
template<class T>
static void conc_round(long r)
{
    vrf::Round R(r);
    Program p = gen_program(R.rng, 100);
    Fixture<T> fx;
    uint32_t next_id = 1;
    fx.seed_initial(p.initial, next_id);
    fx.as.live_handles = &fx.live_handles;
    R.program("{\"T\":\"" + std::string(Val<T>::name()) + "\",\"prog\":" + p.json() + "}");
    for (size_t t = 0; t < p.scripts.size(); t++) {
        R.spawn([&fx, &p, t] { fx.run_script(static_cast<int>(t), p.scripts[t]); });
    }
    R.run();
    // an element is unlinked (and logged) by the first erase() that reaches it; later calls on the same node are no-ops
    std::set<uint32_t> erased_ids;
    for (int t = 0; t < vrf::MAXT; t++)
        for (auto& m : fx.muts[t])
            if (m.kind == 'E') erased_ids.insert(m.id);
    uint64_t erases = erased_ids.size();
    uint64_t nd_live = fx.as.node_destroys_with_live_handle;
    uint64_t reclaimed_in_round = fx.as.node_destroys;
    accounting(fx, erases, "concurrent");
    vrf::note(vrf::mixhash(p.hash(), R.sched_sig), erases > 0);
    vrf::count("erases", erases);
    vrf::count("nodes_reclaimed_before_list_destruction", reclaimed_in_round);
    vrf::count("nodes_reclaimed_while_another_handle_alive", nd_live);
    if (r % 2000 == 0) vrf::sample(vrf::res.cur_program);
}

int main(int argc, char** argv)
{
    vrf::init(argc, argv, "C13");
    g_cell_baseline = vrf::g_cell_live.load();
    const std::string& mode = vrf::cfg.mode;
    if (mode == "exhaustive") {
        exhaustive_handles<vrf::Cell>();
        exhaustive_handles<std::string>();
        exhaustive_handles<int>();
        vrf::finish();
    }
    for (long r = 0; r < vrf::cfg.rounds; r++) {
        if (!vrf::want_round(r)) continue;
        int which = static_cast<int>(r % 3);
        if (mode == "composite") {
            vrf::res.cur_round = r;
            vrf::Rng rng = vrf::round_rng(r);
            composite_script(rng, r);
        } else if (mode == "stdalloc") {
            vrf::res.cur_round = r;
            vrf::Rng rng = vrf::round_rng(r);
            stdalloc_script(rng, r);
        } else if (mode == "seq") {
            vrf::res.cur_round = r;
            vrf::Rng rng = vrf::round_rng(r);
            if (which == 0) seq_script<vrf::Cell>(rng, r);
            else if (which == 1) seq_script<std::string>(rng, r);
            else seq_script<int>(rng, r);
        } else {
            if (which == 0) conc_round<vrf::Cell>(r);
            else if (which == 1) conc_round<std::string>(r);
            else conc_round<int>(r);
        }
    }
    vrf::finish();
}
