// C14 — reads on lr_guarded, cow_guarded and rcu lists never wait for writers.
// Freeze engine: the writer is suspended at its k-th scheduling point (every k of the operation is enumerated) while
// readers must run complete read operations to the end; then the writer is resumed and must finish.
#include "rcu_common.hpp"
using namespace gmlc::libguarded;
using vrf::Cell;
using vrf::Win;

enum Scen { LR_MODIFY, COW_COMMIT, COW_CANCEL, RCU_PUSH_FRONT, RCU_PUSH_BACK, RCU_EMPLACE_FRONT, RCU_EMPLACE_BACK, RCU_ERASE, RCU_ERASE_HEAD, RCU_ERASE_TAIL, NSCEN };
static const char* const SCENN[] = {"lr_guarded::modify", "cow_guarded lock+commit", "cow_guarded lock+cancel", "rcu push_front", "rcu push_back",
                                    "rcu emplace_front", "rcu emplace_back", "rcu erase (middle)", "rcu erase (head)", "rcu erase (tail)"};

struct ReadStats {
    std::atomic<uint64_t> reads{0}, blocking_steps{0};
};

// a read acquisition must not contain a blocking transition
struct AcqGuard {
    uint64_t c0, w0, y0;
    const char* what;
    explicit AcqGuard(const char* w): c0(vrf::stats().lock_contended), w0(vrf::stats().cv_waits), y0(vrf::stats().yields), what(w) {}
    void done(ReadStats& rs)
    {
        auto& s = vrf::stats();
        if (s.lock_contended != c0 || s.cv_waits != w0 || s.yields != y0)
            vrf::violation("oracle:blocking_step_inside_read_acquisition",
                           std::string("{\"acquisition\":\"") + what + "\",\"contended_locks\":" + std::to_string(s.lock_contended - c0) + ",\"condition_waits\":" +
                               std::to_string(s.cv_waits - w0) + ",\"spin_yields\":" + std::to_string(s.yields - y0) + "}");
        rs.reads.fetch_add(1, std::memory_order_relaxed);
    }
};

struct Result {
    uint64_t span = 0;
    bool froze = false;
    uint64_t sig = 0;
};

static Result run_one(long ridx, int scen, bool early, uint64_t freeze_at, int nreaders, ReadStats& rs)
{
    vrf::Round R(ridx);
    R.freeze_tid = 0;
    R.freeze_at = freeze_at;
    auto& rng = R.rng;
    std::vector<int> forms;
    for (int i = 0; i < nreaders; i++) forms.push_back(static_cast<int>(rng.below(4)));
    int nreads = static_cast<int>(rng.range(1, 3));
    R.program(std::string("{\"writer_op\":\"") + SCENN[scen] + "\",\"early_handle\":" + (early ? "1" : "0") + ",\"freeze_at_step\":" + std::to_string(freeze_at) +
              ",\"readers\":" + std::to_string(nreaders) + ",\"reader_forms\":" + vrf::jnums(forms) + ",\"reads_each\":" + std::to_string(nreads) + "}");
    std::atomic<int> early_taken{early ? 0 : 1}, readers_done{0}, writer_started{0};
    // ---- the three structures (only the one the scenario needs is used)
    lr_guarded<Cell, vrf::mutex_t> lr(false);
    cow_guarded<Cell, vrf::mutex_t> cow(false);
    rcu::Fixture<Cell> fx;
    uint32_t next_id = 1;
    bool is_rcu = scen >= RCU_PUSH_FRONT;
    if (is_rcu) fx.seed_initial(3, next_id);
    // thread 0: the writer
    R.spawn([&] {
        vrf::spin_until([&] { return early_taken.load(std::memory_order_relaxed) == 1; });
        writer_started.store(1, std::memory_order_relaxed);
        if (is_rcu) {
            rcu::Fixture<Cell>::WH h(fx.g->lock_write());
            if (scen == RCU_ERASE || scen == RCU_ERASE_HEAD || scen == RCU_ERASE_TAIL) {
                auto it = h->begin();
                int skip = scen == RCU_ERASE ? 1 : scen == RCU_ERASE_HEAD ? 0 : 2;  // 3 elements: middle / head / tail
                for (int i = 0; i < skip; i++) ++it;
                vrf::freeze_arm();
                h->erase(it);
                vrf::freeze_disarm();
            } else {
                (void)h->begin();
                Cell v = vrf::make_value(50);
                vrf::freeze_arm();
                if (scen == RCU_PUSH_FRONT) h->push_front(v);
                else if (scen == RCU_PUSH_BACK) h->push_back(v);
                else if (scen == RCU_EMPLACE_FRONT) h->emplace_front(v);
                else h->emplace_back(v);
                vrf::freeze_disarm();
            }
        } else if (scen == LR_MODIFY) {
            vrf::freeze_arm();
            lr.modify([](Cell& c) {
                Win w(c, true);
                c.append_raw(7);
            });
            vrf::freeze_disarm();
        } else {
            vrf::freeze_arm();
            {
                auto h = cow.lock();
                {
                    Win w(*h, true);
                    h->append_raw(9);
                }
                if (scen == COW_CANCEL) h.cancel();
            }
            vrf::freeze_disarm();
        }
    });
    // readers: complete read operations
    for (int i = 0; i < nreaders; i++) {
        R.spawn([&, i] {
            if (early) vrf::spin_until([&] { return writer_started.load(std::memory_order_relaxed) == 1; });
            for (int n = 0; n < nreads; n++) {
                int form = forms[static_cast<size_t>(i)];
                if (is_rcu) {
                    AcqGuard g("rcu lock_read + begin");
                    rcu::Fixture<Cell>::RH h(fx.g->lock_read());
                    auto it = h->begin();
                    g.done(rs);
                    while (it != h->end()) {
                        AcqGuard g2("rcu iterator advance");
                        (void)rcu::Val<Cell>::id(*it);
                        ++it;
                        g2.done(rs);
                    }
                } else if (scen == LR_MODIFY) {
                    AcqGuard g("lr lock_shared");
                    auto h = form == 0 ? lr.lock_shared() : form == 1 ? lr.try_lock_shared() :
                        form == 2 ? lr.try_lock_shared_for(std::chrono::microseconds(1)) : lr.try_lock_shared_until(std::chrono::steady_clock::now());
                    g.done(rs);
                    if (!h) vrf::violation("oracle:read_handle_null", "{}");
                    Win w(*h, false);
                    h->check("lr reader");
                    vrf::user_point();
                } else {
                    AcqGuard g("cow lock_shared");
                    auto s = form == 0 ? cow.lock_shared() : form == 1 ? cow.try_lock_shared() :
                        form == 2 ? cow.try_lock_shared_for(std::chrono::microseconds(1)) : cow.try_lock_shared_until(std::chrono::steady_clock::now());
                    g.done(rs);
                    if (!s) vrf::violation("oracle:read_handle_null", "{}");
                    Win w(*s, false);
                    s->check("cow reader");
                    Cell copy(*s);  // snapshot copy
                    (void)copy;
                }
            }
            readers_done.fetch_add(1, std::memory_order_relaxed);
        });
    }
    // the early holder: registered before the writer starts, released only after every reader is through
    if (early) {
        R.spawn([&] {
            auto body = [&] {
                early_taken.store(1, std::memory_order_relaxed);
                vrf::spin_until([&] { return readers_done.load(std::memory_order_relaxed) == nreaders; });
            };
            if (is_rcu) {
                rcu::Fixture<Cell>::RH h(fx.g->lock_read());
                auto it = h->begin();
                ++it;  // parked on the element the eraser removes
                body();
                (void)rcu::Val<Cell>::id(*it);
                ++it;
            } else if (scen == LR_MODIFY) {
                auto h = lr.lock_shared();
                Win w(*h, false);
                body();
                h->check("early lr reader");
            } else {
                auto s = cow.lock_shared();
                body();
                s->check("early cow snapshot");
            }
        });
    }
    R.run();
    Result res;
    res.span = vrf::rt.freeze_span;
    res.froze = vrf::rt.freeze_happened;
    res.sig = R.sched_sig;
    if (vrf::global_held_count() != 0) vrf::violation("oracle:lock_leaked_at_quiescence", "{}");
    if (is_rcu) {
        vrf::run_checked(ridx, [&] { fx.g.reset(); });
        fx.as.reset();
    }
    return res;
}

// "A writer is delayed only by read handles that are still held": a handle taken while the writer already waits for the
// earlier ones (after its switch) must not delay it. E holds a handle from before the modification; once the writer is
// spinning, L takes a new handle and keeps it until the writer has finished; E releases; the writer must complete.
static void late_holder_round(long ridx)
{
    vrf::Round R(ridx);
    auto& rng = R.rng;
    int hold_e = static_cast<int>(rng.below(4)), spins = static_cast<int>(rng.range(2, 5));
    R.program("{\"scenario\":\"lr late holder\",\"writer_spins_before_late_handle\":" + std::to_string(spins) + ",\"hold\":" + std::to_string(hold_e) + "}");
    lr_guarded<Cell, vrf::mutex_t> lr(false);
    std::atomic<int> early_taken{0}, late_taken{0}, writer_done{0};
    uint64_t y0 = vrf::yields_of(0);
    R.spawn([&] {  // vthread 0: the writer
        vrf::spin_until([&] { return early_taken.load(std::memory_order_relaxed) == 1; });
        lr.modify([](Cell& c) {
            Win w(c, true);
            c.append_raw(7);
        });
        writer_done.store(1, std::memory_order_relaxed);
    });
    R.spawn([&] {  // E: early holder
        auto h = lr.lock_shared();
        Win w(*h, false);
        early_taken.store(1, std::memory_order_relaxed);
        vrf::spin_until([&] { return late_taken.load(std::memory_order_relaxed) == 1; });
        for (int i = 0; i < hold_e; i++) vrf::hyield();
        h->check("early");
    });
    R.spawn([&] {  // L: late holder, keeps its handle until the writer is through
        vrf::spin_until([&] { return vrf::yields_of(0) >= y0 + static_cast<uint64_t>(spins); });  // the writer waits for E (second drain loop)
        auto h = lr.lock_shared();
        Win w(*h, false);
        late_taken.store(1, std::memory_order_relaxed);
        vrf::spin_until([&] { return writer_done.load(std::memory_order_relaxed) == 1; });
        h->check("late");
    });
    R.run();
    vrf::note(vrf::mixhash(0x1a7e, R.sched_sig ? R.sched_sig : static_cast<uint64_t>(ridx)), true);
    vrf::count("late_holder_rounds");
}

int main(int argc, char** argv)
{
    vrf::init(argc, argv, "C14");
    if (vrf::cfg.mode == "late") {
        for (long r = 0; r < vrf::cfg.rounds; r++)
            if (vrf::want_round(r)) late_holder_round(r);
        vrf::finish();
    }
    if (vrf::cfg.engine != "serial") vrf::harness_error("C14 freeze mode needs the serial engine (writer freezing is a scheduling policy)");
    ReadStats rs;
    long ridx = 0;
    long reps = vrf::cfg.rounds;  // repetitions (reader scripts x schedules) per suspension point
    uint64_t frozen_rounds = 0, points = 0;
    std::string spans = "{";
    for (int scen = 0; scen < NSCEN; scen++) {
        for (int early = 0; early < 2; early++) {
            // dry runs: how many scheduling points does the writer operation execute? (with an early handle the lr writer spins
            // in its drain loop; the span is whatever it executed until the handle was released)
            uint64_t K = 0;
            for (int d = 0; d < 6; d++) {
                if (!vrf::want_round(ridx)) {
                    ridx++;
                    continue;
                }
                Result res = run_one(ridx++, scen, early != 0, 0, 2, rs);
                K = std::max(K, res.span);
            }
            if (vrf::cfg.only_round >= 0 && K == 0) K = 400;
            if (K > 90) K = 90;  // spin loops: the states repeat
            spans += std::string(scen || early ? "," : "") + "\"" + SCENN[scen] + (early ? " +early handle" : "") + "\":" + std::to_string(K);
            for (uint64_t k = 1; k <= K; k++) {
                points++;
                for (long rep = 0; rep < reps; rep++) {
                    if (!vrf::want_round(ridx)) {
                        ridx++;
                        continue;
                    }
                    vrf::Rng rr = vrf::round_rng(ridx);
                    int nreaders = static_cast<int>(rr.range(1, 3));
                    Result res = run_one(ridx++, scen, early != 0, k, nreaders, rs);
                    if (res.froze) frozen_rounds++;
                    vrf::note(vrf::mixhash(vrf::mixhash(static_cast<uint64_t>(scen * 2 + early) * 1000 + k, res.sig), res.froze ? 1 : 0), res.froze);
                }
            }
        }
    }
    spans += "}";
    vrf::count("suspension_points_enumerated", points);
    vrf::count("rounds_in_which_the_writer_was_frozen", frozen_rounds);
    vrf::count("read_acquisitions_checked_for_blocking_steps", rs.reads.load());
    vrf::sample("{\"writer_operation_spans_in_scheduling_points\":" + spans + "}");
    vrf::threshold("rounds_in_which_the_writer_was_frozen", frozen_rounds, vrf::cfg.only_round >= 0 ? 0 : 20);
    vrf::finish();
}
