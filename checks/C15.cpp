// C15 — atomic_guarded and whole-object load/store behave as one atomic register.
#include "all_headers.hpp"
#include "vrf.hpp"
using namespace gmlc::libguarded;
using vrf::Cell;
using vrf::LinOp;

enum Op { LOAD, STORE, ASSIGN, EXCHANGE, CAS, DETACH_STORE, CAST, NOPS };
static const char* const OPN[] = {"load", "store", "operator=", "exchange", "compare_exchange", "modify_detach(set)", "operator T()"};
enum Fam { ATOMIC_M, ATOMIC_TM, GUARDED, GUARDED_OPT, ORDERED, DEFERRED, ATOMIC_TRIV, NFAM };
static const char* const FAMN[] = {"atomic_guarded<mutex>", "atomic_guarded<timed_mutex>", "guarded", "guarded_opt", "ordered_guarded", "deferred_guarded", "atomic_guarded<trivially copyable T with non-bitwise ==>"};

struct RegModel {
    using State = int64_t;
    static uint64_t hash(const State& s) { return static_cast<uint64_t>(s) * 0x9E3779B97F4A7C15ull; }
    static void step(const State& s, const LinOp& o, std::vector<State>& out)
    {
        switch (o.op) {
            case LOAD:
            case CAST:
                if (o.r == s) out.push_back(s);
                return;
            case STORE:
            case ASSIGN:
            case DETACH_STORE: out.push_back(o.a); return;
            case EXCHANGE:
                if (o.r == s) out.push_back(o.a);
                return;
            case CAS:
                if (s == o.a) {
                    if (o.r == 1) out.push_back(o.b);
                } else if (o.r == 0 && o.r2 == s) out.push_back(s);
                return;
        }
    }
};

// A trivially copyable value type whose equality is NOT bitwise equality: `noise` differs between equal values.
struct Triv {
    uint32_t v;
    uint32_t noise;
    uint32_t mirror;  // == ~v: a value mixing two stores is recognisable
    friend bool operator==(const Triv& a, const Triv& b) { return a.v == b.v; }
};
static_assert(std::is_trivially_copyable<Triv>::value, "Triv must be trivially copyable");
static std::atomic<uint32_t> g_noise{1};
static Triv make_triv(int id) { return Triv{static_cast<uint32_t>(id), g_noise.fetch_add(7, std::memory_order_relaxed), ~static_cast<uint32_t>(id)}; }
static void check_triv(const Triv& t, const char* where)
{
    if (t.mirror != ~t.v) vrf::violation("oracle:torn_payload", std::string("{\"where\":\"") + where + "\"}");
}

struct POp {
    int op;
    int val;      // value written / desired
    int exp_sel;  // CAS: 0 = expect the value this thread saw last, 1 = expect a random existing id
    int exp_id;
};

static std::atomic<uint64_t> g_failed_exchanges{0};
template<class W>
static void run_ops(W& w, int fam, int tid, const std::vector<POp>& script, std::vector<LinOp>& hist, std::atomic<uint32_t>* ran)
{
    int last_seen = 0;
    int opno = 0;
    (void)fam;
    (void)ran;
    for (const POp& p : script) {
        LinOp o;
        o.thread = tid;
        o.op = p.op;
        const bool lvalue_arg = ((opno++ + tid) % 2) != 0;
        o.call = vrf::now();
        if constexpr (!std::is_same<W, deferred_guarded<Cell, vrf::shared_timed_mutex_t>>::value) {
            if (p.op == STORE) {
                o.a = p.val;
                // values reach the register as temporaries (even ids of the thread's script position) or as named lvalues,
                // which must still hold their value afterwards
                if (lvalue_arg) {
                    Cell v = vrf::make_value(static_cast<uint32_t>(p.val));
                    w.store(v);
                    vrf::still_holds(v, static_cast<uint32_t>(p.val), "store");
                } else w.store(vrf::make_value(static_cast<uint32_t>(p.val)));
            } else if (p.op == ASSIGN) {
                o.a = p.val;
                if (lvalue_arg) {
                    Cell v = vrf::make_value(static_cast<uint32_t>(p.val));
                    w = v;
                    vrf::still_holds(v, static_cast<uint32_t>(p.val), "operator=");
                } else w = vrf::make_value(static_cast<uint32_t>(p.val));
            }
        }
        if (p.op == LOAD) {
            Cell c = w.load();
            c.check("loaded value");
            if (c.n > 1) vrf::violation("oracle:torn_payload", "{\"what\":\"loaded value mixes two stores\"}");
            o.r = c.value();
            last_seen = static_cast<int>(o.r);
        }
        if constexpr (std::is_same<W, atomic_guarded<Cell, vrf::mutex_t>>::value || std::is_same<W, atomic_guarded<Cell, vrf::timed_mutex_t>>::value ||
                      std::is_same<W, ordered_guarded<Cell, vrf::shared_timed_mutex_t>>::value) {
            if (p.op == CAST) {  // conversion operator: behaves as a load
                Cell c = static_cast<Cell>(static_cast<const W&>(w));
                c.check("converted value");
                if (c.n > 1) vrf::violation("oracle:torn_payload", "{\"what\":\"converted value mixes two stores\"}");
                o.r = c.value();
                last_seen = static_cast<int>(o.r);
            }
        }
        if constexpr (std::is_same<W, atomic_guarded<Cell, vrf::mutex_t>>::value || std::is_same<W, atomic_guarded<Cell, vrf::timed_mutex_t>>::value) {
            if (p.op == EXCHANGE) {
                o.a = p.val;
                Cell arg = vrf::make_value(static_cast<uint32_t>(p.val));
                if (lvalue_arg && p.val % 3 == 0) {
                    // the first copy or copy assignment of the value throws: the exchange fails as a whole, the register keeps
                    // what it held (the operation is left out of the history, later operations are judged without it)
                    bool threw = false;
                    vrf::fault_arm((1u << 1) | (1u << 2), 1);
                    try {
                        Cell old = w.exchange(arg);
                        (void)old;
                    }
                    catch (const vrf::Injected&) {
                        threw = true;
                    }
                    vrf::fault_disarm();
                    if (!threw) vrf::harness_error("exchange of an lvalue copied nothing");
                    if (vrf::held_count() != 0) vrf::violation("oracle:lock_held_after_failed_exchange", "{}");
                    vrf::still_holds(arg, static_cast<uint32_t>(p.val), "failed exchange");
                    g_failed_exchanges.fetch_add(1, std::memory_order_relaxed);
                    continue;
                }
                Cell old = lvalue_arg ? w.exchange(arg) : w.exchange(vrf::make_value(static_cast<uint32_t>(p.val)));
                if (lvalue_arg) vrf::still_holds(arg, static_cast<uint32_t>(p.val), "exchange");
                old.check("exchanged value");
                o.r = old.value();
                last_seen = static_cast<int>(o.r);
            } else if (p.op == CAS) {
                int e = p.exp_sel == 0 ? last_seen : p.exp_id;
                o.a = e;
                o.b = p.val;
                Cell expected;
                if (e != 0) expected.set_raw(static_cast<uint32_t>(e));
                Cell desired = vrf::make_value(static_cast<uint32_t>(p.val));
                bool ok = lvalue_arg ? w.compare_exchange(expected, desired) : w.compare_exchange(expected, vrf::make_value(static_cast<uint32_t>(p.val)));
                if (lvalue_arg) vrf::still_holds(desired, static_cast<uint32_t>(p.val), "compare_exchange (desired)");
                expected.check("expected after compare_exchange");
                o.r = ok ? 1 : 0;
                o.r2 = expected.value();
                if (ok && o.r2 != e) vrf::violation("oracle:compare_exchange_changed_expected_on_success", "{}");
                last_seen = ok ? p.val : static_cast<int>(o.r2);
            }
        }
        if constexpr (std::is_same<W, deferred_guarded<Cell, vrf::shared_timed_mutex_t>>::value) {
            if (p.op == DETACH_STORE) {
                o.a = p.val;
                uint32_t v = static_cast<uint32_t>(p.val);
                w.modify_detach([v, ran](Cell& c) {
                    vrf::Win win(c, true);
                    c.set_raw(v);
                    ran[v].store(1, std::memory_order_relaxed);
                });
                // a queued write may take effect later: it stays open unless it has visibly run already
                if (ran[v].load(std::memory_order_relaxed) == 0) {
                    hist.push_back(o);
                    continue;
                }
            }
        }
        o.ret = vrf::now();
        hist.push_back(o);
    }
}

// the same operations on atomic_guarded<Triv>
static void run_ops_triv(atomic_guarded<Triv, vrf::mutex_t>& w, int tid, const std::vector<POp>& script, std::vector<LinOp>& hist)
{
    int last_seen = 0;
    for (const POp& p : script) {
        LinOp o;
        o.thread = tid;
        o.op = p.op;
        o.call = vrf::now();
        if (p.op == STORE) {
            o.a = p.val;
            w.store(make_triv(p.val));
        } else if (p.op == ASSIGN) {
            o.a = p.val;
            w = make_triv(p.val);
        } else if (p.op == LOAD || p.op == CAST) {
            Triv t = (p.op == LOAD) ? w.load() : static_cast<Triv>(static_cast<const atomic_guarded<Triv, vrf::mutex_t>&>(w));
            check_triv(t, "loaded value");
            o.r = t.v;
            last_seen = static_cast<int>(o.r);
        } else if (p.op == EXCHANGE) {
            o.a = p.val;
            Triv old = w.exchange(make_triv(p.val));
            check_triv(old, "exchanged value");
            o.r = old.v;
            last_seen = static_cast<int>(o.r);
        } else if (p.op == CAS) {
            int e = p.exp_sel == 0 ? last_seen : p.exp_id;
            o.a = e;
            o.b = p.val;
            Triv expected = make_triv(e);  // equal by value to the register's content when ids match, never bitwise equal
            bool ok = w.compare_exchange(expected, make_triv(p.val));
            check_triv(expected, "expected after compare_exchange");
            o.r = ok ? 1 : 0;
            o.r2 = expected.v;
            last_seen = ok ? p.val : static_cast<int>(o.r2);
        }
        o.ret = vrf::now();
        hist.push_back(o);
    }
}

template<class W>
static void one_round(long r, int fam, W* wp)
{
    std::unique_ptr<W> w(wp);
    vrf::Round R(r);
    auto& rng = R.rng;
    int nt = static_cast<int>(rng.range(2, 3));
    std::vector<std::vector<POp>> scripts;
    int next = 1;
    std::vector<int> ops;
    if (fam == ATOMIC_M || fam == ATOMIC_TM || fam == ATOMIC_TRIV) ops = {LOAD, STORE, ASSIGN, EXCHANGE, CAS, CAS, CAST};
    else if (fam == DEFERRED) ops = {LOAD, DETACH_STORE};
    else if (fam == ORDERED) ops = {LOAD, STORE, ASSIGN, CAST};
    else ops = {LOAD, STORE, ASSIGN};
    for (int t = 0; t < nt; t++) {
        std::vector<POp> sc;
        int n = static_cast<int>(rng.range(3, 6));
        for (int i = 0; i < n; i++) {
            POp p{ops[rng.below(ops.size())], 0, static_cast<int>(rng.below(2)), 0};
            if (p.op != LOAD && p.op != CAST) {
                // mostly unique values (unambiguous histories); sometimes a value that was written before, so that "the register
                // already holds the desired / stored value" occurs as well
                if (next > 1 && (p.op == CAS || p.op == STORE || p.op == EXCHANGE) && rng.chance(p.op == CAS ? 30 : 10)) p.val = static_cast<int>(rng.range(1, next - 1));
                else p.val = next++;
            }
            p.exp_id = static_cast<int>(rng.below(static_cast<uint64_t>(next)));
            sc.push_back(p);
        }
        scripts.push_back(sc);
    }
    std::string pj = std::string("{\"wrapper\":\"") + FAMN[fam] + "\",\"threads\":[";
    for (size_t t = 0; t < scripts.size(); t++) {
        if (t) pj += ",";
        pj += vrf::jarr(scripts[t].begin(), scripts[t].end(), [](const POp& p) {
            return std::string("{\"op\":\"") + OPN[p.op] + "\",\"val\":" + std::to_string(p.val) + ",\"exp\":" + (p.exp_sel ? std::to_string(p.exp_id) : std::string("\"last\"")) + "}";
        });
    }
    pj += "]}";
    R.program(pj);
    std::vector<LinOp> hist[vrf::MAXT];
    std::atomic<uint32_t> ran[64];
    for (auto& a : ran) a.store(0);
    for (size_t t = 0; t < scripts.size(); t++) {
        if constexpr (std::is_same<W, atomic_guarded<Triv, vrf::mutex_t>>::value) R.spawn([&, t] { run_ops_triv(*w, static_cast<int>(t), scripts[t], hist[t]); });
        else R.spawn([&, t] { run_ops(*w, fam, static_cast<int>(t), scripts[t], hist[t], ran); });
    }
    R.run();
    std::vector<LinOp> all;
    for (auto& h : hist) all.insert(all.end(), h.begin(), h.end());
    // final read (also drains the deferred queue): part of the history
    vrf::run_checked(r, [&] {
        LinOp o;
        o.thread = 7;
        o.op = LOAD;
        o.call = vrf::now();
        if constexpr (std::is_same<W, atomic_guarded<Triv, vrf::mutex_t>>::value) {
            Triv t = w->load();
            check_triv(t, "final load");
            o.r = t.v;
        } else {
            Cell c = w->load();
            c.check("final load");
            o.r = c.value();
        }
        o.ret = vrf::now();
        all.push_back(o);
    });
    if (fam == DEFERRED) {
        // after the draining access every queued write has been applied
        for (auto& o : all)
            if (o.op == DETACH_STORE && ran[o.a].load() == 0) vrf::violation("oracle:modification_stranded", "{}");
    }
    bool overlap = false;
    for (size_t i = 0; i < all.size() && !overlap; i++)
        for (size_t j = 0; j < all.size(); j++)
            if (all[i].thread != all[j].thread && all[i].call < all[j].ret && all[j].call < all[i].ret) {
                overlap = true;
                break;
            }
    if (vrf::clock_is_sync()) {
        uint64_t nodes = 0;
        auto v = vrf::lin_check<RegModel>(all, 0, 100000, &nodes);
        vrf::count("lin_nodes", nodes);
        if (v == vrf::LIN_VIOLATION)
            vrf::violation("oracle:not_linearizable", "{\"history\":" + vrf::jarr(all.begin(), all.end(), [](const LinOp& o) { return vrf::linop_json(o, OPN); }) + "}");
        if (v == vrf::LIN_INCONCLUSIVE) vrf::inconclusive("lin_budget_exceeded");
        else vrf::count("histories_checked");
    }
    if (vrf::global_held_count() != 0) vrf::violation("oracle:lock_leaked_at_quiescence", "{}");
    uint64_t sig = vrf::mixhash(R.sched_sig, static_cast<uint64_t>(fam));
    uint64_t cas_ok = 0, cas_fail = 0;
    for (auto& o : all) {
        sig = vrf::mixhash(sig, static_cast<uint64_t>(o.op) * 1000003u + static_cast<uint64_t>(o.a) * 131 + static_cast<uint64_t>(o.r) * 7 + static_cast<uint64_t>(o.r2));
        if (o.op == CAS) (o.r ? cas_ok : cas_fail)++;
    }
    vrf::note(sig, overlap || !vrf::clock_is_sync());
    vrf::count(std::string("histories_") + FAMN[fam]);
    vrf::count("cas_succeeded", cas_ok);
    vrf::count("cas_failed", cas_fail);
    if (overlap) vrf::count("histories_with_overlapping_calls");
    if (r % 4000 == 0) vrf::sample("{\"program\":" + pj + ",\"history\":" + vrf::jarr(all.begin(), all.end(), [](const LinOp& o) { return vrf::linop_json(o, OPN); }) + "}");
    vrf::run_checked(r, [&] { w.reset(); });
}

// sequential quantifier: random single-threaded sequences, exact register semantics
static void seq_round(long r)
{
    vrf::res.cur_round = r;
    vrf::Rng rng = vrf::round_rng(r);
    atomic_guarded<Cell, vrf::mutex_t> w(false);
    int cur = 0, next = 1;
    std::string prog = "[";
    int n = static_cast<int>(rng.range(4, 24));
    for (int i = 0; i < n; i++) {
        unsigned k = static_cast<unsigned>(rng.below(5));
        if (k == 0) {
            Cell c = w.load();
            if (static_cast<int>(c.value()) != cur) vrf::violation("oracle:seq_register_semantics", "{\"op\":\"load\"}");
        } else if (k == 1) {
            w.store(vrf::make_value(static_cast<uint32_t>(next)));
            cur = next++;
        } else if (k == 2) {
            w = vrf::make_value(static_cast<uint32_t>(next));
            cur = next++;
        } else if (k == 3) {
            Cell o = w.exchange(vrf::make_value(static_cast<uint32_t>(next)));
            if (static_cast<int>(o.value()) != cur) vrf::violation("oracle:seq_register_semantics", "{\"op\":\"exchange returned a value other than the one it replaced\"}");
            cur = next++;
        } else {
            int e = rng.chance(50) ? cur : static_cast<int>(rng.below(static_cast<uint64_t>(next)));
            Cell ex;
            if (e) ex.set_raw(static_cast<uint32_t>(e));
            bool ok = w.compare_exchange(ex, vrf::make_value(static_cast<uint32_t>(next)));
            if (ok != (e == cur)) vrf::violation("oracle:seq_register_semantics", "{\"op\":\"compare_exchange success flag\"}");
            if (!ok && static_cast<int>(ex.value()) != cur) vrf::violation("oracle:seq_register_semantics", "{\"op\":\"compare_exchange did not report the current value\"}");
            if (ok) cur = next++;
        }
        prog += std::to_string(k) + ",";
        vrf::res.cur_program = "{\"ops\":" + prog + "0]}";
    }
    uint64_t sig = 5;
    for (char c : prog) sig = vrf::mixhash(sig, static_cast<uint64_t>(c));
    vrf::note(sig, n >= 6);
    vrf::count("seq_ops", static_cast<uint64_t>(n));
    vrf::res.rounds_done++;
}

int main(int argc, char** argv)
{
    vrf::init(argc, argv, "C15");
    for (long r = 0; r < vrf::cfg.rounds; r++) {
        if (!vrf::want_round(r)) continue;
        if (vrf::cfg.mode == "seq") {
            seq_round(r);
            continue;
        }
        int fam = static_cast<int>((r + vrf::cfg.proc) % 10);
        if (fam >= NFAM) fam = fam % 2;  // atomic_guarded gets the larger share
        switch (fam) {
            case ATOMIC_M: one_round(r, fam, new atomic_guarded<Cell, vrf::mutex_t>(false)); break;
            case ATOMIC_TM: one_round(r, fam, new atomic_guarded<Cell, vrf::timed_mutex_t>(false)); break;
            case GUARDED: one_round(r, fam, new guarded<Cell, vrf::mutex_t>(true)); break;
            // whole-object load / store / assignment of guarded_opt are atomic whatever the locking flag says (the flag governs
            // the handles only)
            case GUARDED_OPT: one_round(r, fam, new guarded_opt<Cell, vrf::mutex_t>((r / 7) % 2 == 0, true)); break;
            case ORDERED: one_round(r, fam, new ordered_guarded<Cell, vrf::shared_timed_mutex_t>(false)); break;
            case ATOMIC_TRIV: one_round(r, fam, new atomic_guarded<Triv, vrf::mutex_t>(Triv{0, 0, ~0u})); break;
            default: one_round(r, fam, new deferred_guarded<Cell, vrf::shared_timed_mutex_t>(false)); break;
        }
    }
    vrf::count("exchanges_whose_value_copy_threw", g_failed_exchanges.load());
    vrf::finish();
}
