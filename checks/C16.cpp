// C16 — DelayedDestructor destroys late, once, and never under its own lock.
#include "all_headers.hpp"
#include "vrf.hpp"
using namespace gmlc::concurrency;

constexpr int MAXE = 48;
struct Ctx {
    std::atomic<int> destroyed[MAXE], callbacks[MAXE], owners[MAXE], cb_before_dtor_ok[MAXE], queued_twice[MAXE];
    std::atomic<int> container_alive{1};
    std::atomic<int> added{0}, destroyed_total{0};
    std::atomic<int> extra_entries{0};  // second entries of objects that were handed over twice
    std::atomic<int> next_id{0};
    bool with_callback = false;
    bool callback_may_throw = false;  // a throwing callback aborts the batch: later elements of it die without their callback (C20 territory)
    std::function<void(int, int)> reenter;  // (what, depth of the caller): 0 size, 1 add a child, 2 destroyObjects
    bool deep_chains = false;  // children re-enter as well: chains of up to 9 generations of destructor-added objects
    std::atomic<uint64_t> reentries{0};
    Ctx()
    {
        for (int i = 0; i < MAXE; i++) {
            destroyed[i].store(0);
            callbacks[i].store(0);
            owners[i].store(0);
            cb_before_dtor_ok[i].store(0);
            queued_twice[i].store(0);
        }
    }
};
struct Elem {
    Ctx* cx;
    int id;
    int reenter_kind;  // -1 none
    int depth = 0;     // generation: 0 = added by a client, n = added by the destructor of a generation n-1 object
    uint32_t magic = 0xE1E1E1E1u;
    Elem(Ctx* c, int i, int rk, int d = 0): cx(c), id(i), reenter_kind(rk), depth(d) {}
    Elem(const Elem&) = delete;
    ~Elem()
    {
        if (magic != 0xE1E1E1E1u) vrf::raise_violation("oracle:element_destroyed_twice", "{}");
        magic = 0;
        int n = cx->destroyed[id].fetch_add(1, std::memory_order_relaxed);
        if (n != 0) vrf::raise_violation("oracle:element_destroyed_twice", "{\"id\":" + std::to_string(id) + "}");
        if (cx->owners[id].load(std::memory_order_relaxed) != 0)
            vrf::raise_violation("oracle:element_destroyed_while_another_owner_holds_it", "{\"id\":" + std::to_string(id) + "}");
        if (vrf::held_count() != 0)
            vrf::raise_violation("oracle:element_destructor_ran_under_a_lock", "{\"id\":" + std::to_string(id) + ",\"locks_held\":" + std::to_string(vrf::held_count()) + "}");
        // (an object that was handed over twice is never reaped by destroyObjects on the unchanged tree - two entries keep its
        // use count above one - and dies with the container's vector: no callback is owed for that)
        if (cx->with_callback && !cx->callback_may_throw && cx->container_alive.load(std::memory_order_relaxed) == 1 && cx->callbacks[id].load(std::memory_order_relaxed) != 1 &&
            !(cx->queued_twice[id].load(std::memory_order_relaxed) && cx->callbacks[id].load(std::memory_order_relaxed) == 0))
            vrf::raise_violation("oracle:element_reaped_without_its_callback", "{\"id\":" + std::to_string(id) + ",\"callbacks\":" + std::to_string(cx->callbacks[id].load()) + "}");
        cx->destroyed_total.fetch_add(1, std::memory_order_relaxed);
        vrf::user_point();
        if (reenter_kind >= 0 && cx->container_alive.load(std::memory_order_relaxed) == 1 && cx->reenter) {
            cx->reentries.fetch_add(1, std::memory_order_relaxed);
            cx->reenter(reenter_kind, depth);
        }
    }
};

struct Act {
    char kind;  // A add (own for `hold` further actions), D destroyObjects, T destroyObjects(delay), S size, Y yield
    int hold;
    int reenter;
    bool late_owner;  // keeps its reference until after the container is gone
};
static std::string act_json(const Act& a)
{
    return std::string("{\"k\":\"") + a.kind + "\",\"hold\":" + std::to_string(a.hold) + ",\"reenter\":" + std::to_string(a.reenter) + ",\"late\":" + (a.late_owner ? "1" : "0") + "}";
}

template<class DD>
static void one_round(long r, bool concurrent, const char* cname)
{
    vrf::Round R(r);
    auto& rng = R.rng;
    Ctx cx;
    cx.with_callback = rng.chance(60);
    cx.deep_chains = rng.chance(20);
    bool cb_reenters = rng.chance(30), cb_throws = rng.chance(10);
    cx.callback_may_throw = cb_throws;
    int nt = concurrent ? static_cast<int>(rng.range(2, 4)) : 1;
    std::vector<std::vector<Act>> scripts;
    int planned = 0;
    for (int t = 0; t < nt; t++) {
        std::vector<Act> sc;
        int n = static_cast<int>(rng.range(2, concurrent ? 5 : 12));
        for (int i = 0; i < n; i++) {
            unsigned k = static_cast<unsigned>(rng.below(100));
            if (k < 45 && planned < 16) {
                sc.push_back(Act{'A', static_cast<int>(rng.below(4)), rng.chance(35) ? static_cast<int>(rng.below(3)) : -1, rng.chance(8)});
                planned++;
            } else if (k < 70) sc.push_back(Act{'D', 0, 0, false});
            else if (k < 80) sc.push_back(Act{'T', static_cast<int>(rng.below(4)), 0, false});
            else if (k < 92) sc.push_back(Act{'S', 0, 0, false});
            else sc.push_back(Act{'Y', 0, 0, false});
        }
        scripts.push_back(sc);
    }
    std::string pj = std::string("{\"class\":\"") + cname + "\",\"callback\":" + (cx.with_callback ? "1" : "0") + ",\"deep_chains\":" + (cx.deep_chains ? "1" : "0") + ",\"callback_reenters\":" + (cb_reenters ? "1" : "0") +
        ",\"callback_throws\":" + (cb_throws ? "1" : "0") + ",\"threads\":[";
    for (size_t t = 0; t < scripts.size(); t++) {
        if (t) pj += ",";
        pj += vrf::jarr(scripts[t].begin(), scripts[t].end(), act_json);
    }
    pj += "]}";
    R.program(pj);
    DD* dd = nullptr;
    auto callback = [&cx, &dd, cb_reenters, cb_throws](std::shared_ptr<Elem>& p) {
        if (!p) vrf::raise_violation("oracle:callback_got_null", "{}");
        int n = cx.callbacks[p->id].fetch_add(1, std::memory_order_relaxed);
        if (n != 0) vrf::raise_violation("oracle:callback_ran_twice", "{\"id\":" + std::to_string(p->id) + "}");
        if (cx.destroyed[p->id].load(std::memory_order_relaxed) != 0) vrf::raise_violation("oracle:callback_after_destruction", "{}");
        if (vrf::held_count() != 0)
            vrf::raise_violation("oracle:callback_ran_under_a_lock", "{\"id\":" + std::to_string(p->id) + ",\"locks_held\":" + std::to_string(vrf::held_count()) + "}");
        vrf::user_point();
        if (cb_reenters) (void)dd->size();
        if (cb_throws && (p->id % 3) == 0) throw std::runtime_error("callback failure");
    };
    if (cx.with_callback) dd = new DD(callback);
    else dd = new DD();
    cx.reenter = [&cx, &dd](int what, int depth) {
        if (what == 0) (void)dd->size();
        else if (what == 1) {
            int id = cx.next_id.fetch_add(1, std::memory_order_relaxed);
            if (id < MAXE) {
                cx.added.fetch_add(1, std::memory_order_relaxed);
                // in deep-chain rounds the child's destructor hands over a grandchild, and so on for up to 9 generations: more
                // than the container's destructor reaps round by round
                int child_reenter = (cx.deep_chains && depth + 1 < 9) ? 1 : -1;
                dd->addObjectsToBeDestroyed(std::make_shared<Elem>(&cx, id, child_reenter, depth + 1));
            }
        } else (void)dd->destroyObjects();
    };
    std::vector<std::pair<std::shared_ptr<Elem>, int>> late[vrf::MAXT];
    for (size_t t = 0; t < scripts.size(); t++) {
        R.spawn([&, t] {
            std::vector<std::pair<std::shared_ptr<Elem>, int>> owned;  // (ref, actions left)
            auto drop = [&](std::shared_ptr<Elem>& sp) {
                cx.owners[sp->id].fetch_sub(1, std::memory_order_relaxed);  // before the drop: the container may reap from now on
                sp.reset();
            };
            for (const Act& a : scripts[t]) {
                switch (a.kind) {
                    case 'A': {
                        int id = cx.next_id.fetch_add(1, std::memory_order_relaxed);
                        if (id >= MAXE) break;
                        auto sp = std::make_shared<Elem>(&cx, id, a.reenter);
                        cx.owners[id].store(1, std::memory_order_relaxed);
                        cx.added.fetch_add(1, std::memory_order_relaxed);
                        dd->addObjectsToBeDestroyed(sp);
                        // the same object handed over a second time (two entries, one control block): it may stay queued for
                        // longer, but it is still destroyed once, and no callback runs for it unless it is reaped
                        if (id % 9 == 4) {
                            cx.extra_entries.fetch_add(1, std::memory_order_relaxed);
                            cx.queued_twice[id].store(1, std::memory_order_relaxed);
                            dd->addObjectsToBeDestroyed(sp);
                        }
                        if (a.late_owner) late[t].emplace_back(std::move(sp), 0);
                        else if (a.hold == 0) drop(sp);
                        else owned.emplace_back(std::move(sp), a.hold);
                        break;
                    }
                    case 'D': (void)dd->destroyObjects(); break;
                    case 'T': (void)dd->destroyObjects(std::chrono::milliseconds(a.hold == 0 ? 0 : a.hold == 1 ? 3 : a.hold == 2 ? 6 : 120)); break;  // 120 ms: the unlock / sleep / re-lock loop
                    case 'S': {
                        size_t s = dd->size();
                        if (s > static_cast<size_t>(cx.added.load(std::memory_order_relaxed) + cx.extra_entries.load(std::memory_order_relaxed))) vrf::violation("oracle:size_larger_than_ever_added", "{}");
                        break;
                    }
                    default: vrf::hyield(); break;
                }
                if (vrf::held_count() != 0) vrf::violation("oracle:lock_held_after_call_returned", "{\"after\":\"" + std::string(1, a.kind) + "\"}");
                for (size_t i = 0; i < owned.size();) {
                    if (--owned[i].second <= 0) {
                        drop(owned[i].first);
                        owned.erase(owned.begin() + static_cast<long>(i));
                    } else i++;
                }
            }
            for (auto& o : owned) drop(o.first);
        });
    }
    R.run();
    if (vrf::global_held_count() != 0) vrf::violation("oracle:lock_leaked_at_quiescence", "{}");
    // quiescence: conservation
    int nlate = 0;
    for (auto& v : late) nlate += static_cast<int>(v.size());
    vrf::run_checked(r, [&] {
        size_t s = dd->size();
        int added = cx.added.load(), dest = cx.destroyed_total.load();
        // every object is either still queued or destroyed; an object handed over twice may occupy two entries while queued
        if (static_cast<int>(s) + dest < added || static_cast<int>(s) + dest > added + cx.extra_entries.load())
            vrf::violation("oracle:objects_lost_or_duplicated", "{\"added\":" + std::to_string(added) + ",\"destroyed\":" + std::to_string(dest) + ",\"size\":" + std::to_string(s) + "}");
        // container destruction: everything not owned elsewhere dies now, exactly once
        delete dd;
        cx.container_alive.store(0);
    });
    int total = std::min(cx.next_id.load(), MAXE);
    std::set<int> late_ids;
    for (auto& v : late)
        for (auto& p : v) late_ids.insert(p.first->id);
    for (int i = 0; i < total; i++) {
        int d = cx.destroyed[i].load();
        if (late_ids.count(i)) {
            if (d != 0) vrf::violation("oracle:element_destroyed_while_another_owner_holds_it", "{\"id\":" + std::to_string(i) + ",\"when\":\"container destruction\"}");
        } else if (d != 1)
            vrf::violation("oracle:element_not_destroyed_with_the_container", "{\"id\":" + std::to_string(i) + ",\"destroyed\":" + std::to_string(d) + "}");
        if (cx.callbacks[i].load() > 1) vrf::violation("oracle:callback_ran_twice", "{}");
    }
    for (auto& v : late)
        for (auto& p : v) {
            int id = p.first->id;
            cx.owners[id].fetch_sub(1);
            p.first.reset();
            if (cx.destroyed[id].load() != 1) vrf::violation("oracle:late_owned_element_not_destroyed_by_its_last_owner", "{}");
        }
    vrf::check_shadow();
    uint64_t sig = vrf::mixhash(std::hash<std::string>()(pj), R.sched_sig);
    vrf::note(sig, cx.reentries.load() > 0 || (concurrent && cx.destroyed_total.load() > 0));
    vrf::count("elements_added", static_cast<uint64_t>(cx.added.load()));
    vrf::count("elements_destroyed", static_cast<uint64_t>(cx.destroyed_total.load()));
    vrf::count("reentrant_calls_from_destructors", cx.reentries.load());
    vrf::count("late_owned_elements", static_cast<uint64_t>(nlate));
    if (cx.with_callback) vrf::count("rounds_with_callback");
    if (r % 3000 == 0) vrf::sample(pj);
}

int main(int argc, char** argv)
{
    vrf::init(argc, argv, "C16");
    for (long r = 0; r < vrf::cfg.rounds; r++) {
        if (!vrf::want_round(r)) continue;
        if (vrf::cfg.mode == "seq") {
            if (r % 2) one_round<DelayedDestructorSingleThread<Elem>>(r, false, "DelayedDestructorSingleThread");
            else one_round<DelayedDestructor<Elem>>(r, false, "DelayedDestructor");
        } else one_round<DelayedDestructor<Elem>>(r, true, "DelayedDestructor");
    }
    vrf::finish();
}
