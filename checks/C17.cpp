// C17 — SearchableObjectHolder is an atomic, memory-safe name -> object map.
#include "all_headers.hpp"
#include "vrf.hpp"
using gmlc::concurrency::SearchableObjectHolder;
using vrf::Cell;
using vrf::LinOp;

enum Op { ADD, ADDT, ADDTYPE, EMPTY, GETOBJS, REMOVE, REMOVEPRED, COPY, CHECKTYPE, FIND, FINDPRED, FINDPREDTYPE, NOPS };
static const char* const OPN[] = {"addObject", "addObject+type", "addType", "empty", "getObjects", "removeObject(name)",
                                  "removeObject(pred)", "copyObject", "checkObjectType", "findObject(name)", "findObject(pred)",
                                  "findObject(pred,type)"};
// names come in families chosen by the round, each in ascending order: plain names; the empty name, a one-NUL name, a name
// and the same name continued behind an embedded NUL; names too long for the small-string buffer that share a long prefix
static std::string NM(int i)
{
    switch (vrf::res.cur_round % 4) {
        case 1: {
            static const std::string f[] = {std::string(), std::string(1, '\0'), std::string("ab"), std::string("ab\0cd", 5)};
            return f[i];
        }
        case 2: return std::string(40, 'n') + static_cast<char>('0' + i);
        default: {
            static const char* f[] = {"a", "b", "c", "d"};
            return f[i];
        }
    }
}
constexpr int NNAMES = 4;

static bool pred_match(int kind, int arg, uint32_t oid)
{
    switch (kind) {
        case 0: return oid == static_cast<uint32_t>(arg);
        case 1: return (oid % 2) == static_cast<uint32_t>(arg);
        case 2: return true;
        default: return false;
    }
}

// an entry may hold an empty pointer: it is an entry all the same (it makes the holder non-empty, blocks its name, carries
// tags, can be copied and removed by name); predicates are not asked about it
constexpr uint8_t NULLOID = 255;
struct Model {
    struct State {
        uint8_t oid[NNAMES];
        uint8_t types[NNAMES];
        uint8_t orphan[NNAMES];  // tags attached (addType) to a name that holds no object: what becomes of them is not specified
        bool operator==(const State& o) const { return memcmp(this, &o, sizeof *this) == 0; }
    };
    static uint64_t hash(const State& s)
    {
        uint64_t h = 0;
        for (int i = 0; i < NNAMES; i++) h = h * 4099 + s.oid[i] * 64u + s.types[i] * 8u + s.orphan[i];
        return h;
    }
    static uint64_t objs_sig(const State& s)
    {
        uint64_t sig = 0;
        for (int i = 0; i < NNAMES; i++)
            if (s.oid[i] == NULLOID) sig += 1ull << 60;  // an entry holding an empty pointer
            else if (s.oid[i]) sig += 1ull << (4 * (s.oid[i] % 16));
        return sig;
    }
    static void step(const State& s, const LinOp& o, std::vector<State>& out)
    {
        State n = s;
        switch (o.op) {
            case ADD:
            case ADDT:
                if (s.oid[o.a] == 0) {
                    // a name without an object accepts the object, whatever tags were attached to the bare name before. The
                    // tags of the new entry: its own, the earlier ones, or both (the statement does not say; the unchanged
                    // library keeps the earlier ones only)
                    if (o.r != 1) return;
                    uint8_t own = (o.op == ADDT) ? static_cast<uint8_t>(1u << o.r2) : 0;
                    n.oid[o.a] = static_cast<uint8_t>(o.b);
                    n.orphan[o.a] = 0;
                    n.types[o.a] = own;
                    out.push_back(n);
                    if (s.orphan[o.a]) {
                        n.types[o.a] = s.orphan[o.a];
                        if (n.types[o.a] != own) out.push_back(n);
                        n.types[o.a] = static_cast<uint8_t>(own | s.orphan[o.a]);
                        if (n.types[o.a] != own && n.types[o.a] != s.orphan[o.a]) out.push_back(n);
                    }
                    return;
                }
                if (o.r != 0) return;
                out.push_back(n);
                return;
            case ADDTYPE:
                if (s.oid[o.a] == 0) {
                    // addType on a bare name: ignored, or remembered for the name
                    out.push_back(n);
                    n.orphan[o.a] |= static_cast<uint8_t>(1u << o.b);
                    if (n.orphan[o.a] != s.orphan[o.a]) out.push_back(n);
                    return;
                }
                n.types[o.a] |= static_cast<uint8_t>(1u << o.b);
                out.push_back(n);
                return;
            case EMPTY: {
                bool e = true;
                for (int i = 0; i < NNAMES; i++)
                    if (s.oid[i]) e = false;
                if ((o.r != 0) == e) out.push_back(n);
                return;
            }
            case GETOBJS:
                if (static_cast<uint64_t>(o.r) == objs_sig(s)) out.push_back(n);
                return;
            case REMOVE:
                if (s.oid[o.a]) {
                    if (o.r != 1) return;
                    n.oid[o.a] = 0;
                    n.types[o.a] = 0;
                } else if (o.r != 0) return;
                out.push_back(n);
                return;
            case REMOVEPRED:
                if (o.r == 0) {
                    for (int i = 0; i < NNAMES; i++)
                        if (s.oid[i] && s.oid[i] != NULLOID && pred_match(static_cast<int>(o.a), static_cast<int>(o.b), s.oid[i])) return;
                    out.push_back(n);
                } else {
                    // one matching entry holding the object the predicate accepted last is gone, with its tags
                    for (int i = 0; i < NNAMES; i++) {
                        if (s.oid[i] && s.oid[i] != NULLOID && s.oid[i] == o.r2 && pred_match(static_cast<int>(o.a), static_cast<int>(o.b), s.oid[i])) {
                            State m = s;
                            m.oid[i] = 0;
                            m.types[i] = 0;
                            out.push_back(m);
                        }
                    }
                }
                return;
            case COPY:
                if (s.oid[o.a] != 0 && s.oid[o.b] == 0) {
                    if (o.r != 1) return;
                    n.oid[o.b] = s.oid[o.a];
                    n.orphan[o.b] = 0;
                    n.types[o.b] = s.types[o.a];
                    out.push_back(n);
                    if (s.orphan[o.b]) {  // tags attached to the bare destination name before: see ADD
                        n.types[o.b] = s.orphan[o.b];
                        if (n.types[o.b] != s.types[o.a]) out.push_back(n);
                        n.types[o.b] = static_cast<uint8_t>(s.types[o.a] | s.orphan[o.b]);
                        if (n.types[o.b] != s.types[o.a] && n.types[o.b] != s.orphan[o.b]) out.push_back(n);
                    }
                    return;
                }
                if (o.r != 0) return;
                out.push_back(n);
                return;
            case CHECKTYPE: {
                if (s.oid[o.a] == 0) {
                    // a bare name: false, or true for a tag that was attached to the bare name
                    if (o.r == 0 || ((s.orphan[o.a] >> o.b) & 1)) out.push_back(n);
                    return;
                }
                bool want = ((s.types[o.a] >> o.b) & 1);
                if ((o.r != 0) == want) out.push_back(n);
                return;
            }
            case FIND:
                if (static_cast<uint8_t>(o.r) == (s.oid[o.a] == NULLOID ? 0 : s.oid[o.a])) out.push_back(n);  // an empty pointer is what find hands back for a null entry
                return;
            case FINDPRED:
            case FINDPREDTYPE: {
                bool any = false, ok = false;
                for (int i = 0; i < NNAMES; i++) {
                    if (!s.oid[i] || s.oid[i] == NULLOID || !pred_match(static_cast<int>(o.a), static_cast<int>(o.b), s.oid[i])) continue;
                    if (o.op == FINDPREDTYPE && !((s.types[i] >> o.r2) & 1)) continue;
                    any = true;
                    if (s.oid[i] == o.r) ok = true;
                }
                if (o.r == 0 ? !any : ok) out.push_back(n);
                return;
            }
        }
    }
};

struct POp {
    int op, a, b, c;
};
static std::string pop_json(const POp& p)
{
    return std::string("{\"op\":\"") + OPN[p.op] + "\",\"a\":" + std::to_string(p.a) + ",\"b\":" + std::to_string(p.b) + ",\"c\":" + std::to_string(p.c) + "}";
}

// the type tag is a user type: comparing two tags is user code (a scheduling point, so a comparison made outside the map lock
// meets concurrent mutators) and a destroyed tag is recognisable (a comparison against a type list that was already released)
struct Tag {
    int v;
    uint32_t magic = 0x7A67u;
    Tag(int x = 0): v(x) {}  // NOLINT: implicit on purpose, the call sites pass small integers
    Tag(const Tag& o): v(o.v) { o.alive("copied tag"); }
    Tag& operator=(const Tag& o)
    {
        o.alive("assigned-from tag");
        v = o.v;
        return *this;
    }
    ~Tag() { magic = 0xDEADu; }
    void alive(const char* what) const
    {
        if (magic != 0x7A67u) vrf::violation("oracle:type_tag_used_after_destruction", std::string("{\"what\":\"") + what + "\"}");
    }
    friend bool operator==(const Tag& a, const Tag& b)
    {
        vrf::user_point();
        a.alive("compared tag");
        b.alive("compared tag");
        return a.v == b.v;
    }
    // the rest of what an int offers, so that a library change that orders or hashes tags still builds against this harness
    friend bool operator!=(const Tag& a, const Tag& b) { return !(a == b); }
    friend bool operator<(const Tag& a, const Tag& b)
    {
        vrf::user_point();
        a.alive("compared tag");
        b.alive("compared tag");
        return a.v < b.v;
    }
    friend bool operator>(const Tag& a, const Tag& b) { return b < a; }
    friend bool operator<=(const Tag& a, const Tag& b) { return !(b < a); }
    friend bool operator>=(const Tag& a, const Tag& b) { return !(a < b); }
    friend std::ostream& operator<<(std::ostream& os, const Tag& t) { return os << t.v; }
};
namespace std {
template<>
struct hash<Tag> {
    size_t operator()(const Tag& t) const
    {
        t.alive("hashed tag");
        return std::hash<int>()(t.v);
    }
};
}  // namespace std
using SOH = SearchableObjectHolder<Cell, Tag>;

static void run_thread(SOH& soh, int tid, const std::vector<POp>& script, std::vector<LinOp>& hist,
                       std::vector<std::shared_ptr<Cell>>& kept)
{
    for (const POp& p : script) {
        LinOp o;
        o.thread = tid;
        o.op = p.op;
        o.a = p.a;
        o.b = p.b;
        uint32_t last_true = 0;
        auto pred = [&](const std::shared_ptr<Cell>& c) {
            if (!c) return false;  // an entry holding an empty pointer
            vrf::maybe_throw(4);
            vrf::user_point();
            c->check("predicate argument");
            uint32_t oid = c->value();
            bool m = pred_match(p.a, p.b, oid);
            if (m) last_true = oid;
            return m;
        };
        std::shared_ptr<Cell> got;
        o.call = vrf::now();
        switch (p.op) {
            case ADD: {
                std::shared_ptr<Cell> obj;
                if (p.b != NULLOID) {
                    obj = std::make_shared<Cell>();
                    obj->set_raw(static_cast<uint32_t>(p.b));
                }
                o.r = soh.addObject(NM(p.a), std::move(obj));
                break;
            }
            case ADDT: {
                std::shared_ptr<Cell> obj;
                if (p.b != NULLOID) {
                    obj = std::make_shared<Cell>();
                    obj->set_raw(static_cast<uint32_t>(p.b));
                }
                o.r2 = p.c;
                o.r = soh.addObject(NM(p.a), std::move(obj), p.c);
                break;
            }
            case ADDTYPE: soh.addType(NM(p.a), p.b); break;
            case EMPTY: o.r = soh.empty(); break;
            case GETOBJS: {
                auto v = soh.getObjects();
                uint64_t sig = 0;
                for (auto& sp : v) {
                    if (!sp) {
                        sig += 1ull << 60;
                        continue;
                    }
                    sp->check("getObjects result");
                    sig += 1ull << (4 * (sp->value() % 16));
                }
                o.r = static_cast<int64_t>(sig);
                if (!v.empty() && v[0]) kept.push_back(v[0]);
                break;
            }
            case REMOVE: o.r = soh.removeObject(NM(p.a)); break;
            case REMOVEPRED:
                o.r = soh.removeObject(pred);
                o.r2 = last_true;
                break;
            case COPY: o.r = soh.copyObject(NM(p.a), NM(p.b)); break;
            case CHECKTYPE: o.r = soh.checkObjectType(NM(p.a), p.b); break;
            case FIND:
                got = soh.findObject(NM(p.a));
                break;
            case FINDPRED: got = soh.findObject(pred); break;
            case FINDPREDTYPE:
                o.r2 = p.c;
                got = soh.findObject(pred, p.c);
                break;
        }
        if (p.op == FIND || p.op == FINDPRED || p.op == FINDPREDTYPE) {
            if (got) {
                vrf::user_point();
                got->check("findObject result");
                o.r = got->value();
                kept.push_back(got);
            } else o.r = 0;
        }
        o.ret = vrf::now();
        hist.push_back(o);
    }
    // objects handed out must stay alive although they may have been removed meanwhile
    for (auto& k : kept) {
        vrf::user_point();
        k->check("object kept by a caller after (possible) removal");
    }
}

int main(int argc, char** argv)
{
    vrf::init(argc, argv, "C17");
    bool seq = (vrf::cfg.mode == "seq");
    long base_live = vrf::g_cell_live.load();
    for (long r = 0; r < vrf::cfg.rounds; r++) {
        if (!vrf::want_round(r)) continue;
        vrf::Round R(r);
        auto& rng = R.rng;
        int nthreads = seq ? 1 : static_cast<int>(rng.range(2, 3));
        int pinned = -1;  // a name nobody removes or copies over: addType is generated only for it (present for sure)
        std::vector<std::vector<POp>> scripts(static_cast<size_t>(nthreads));
        int next_oid = 1;
        std::vector<POp> setup;
        // setup phase (main thread, part of the history): a few adds
        int nsetup = static_cast<int>(rng.range(0, 3));
        for (int i = 0; i < nsetup; i++) setup.push_back(POp{rng.chance(50) ? ADD : ADDT, static_cast<int>(rng.below(NNAMES)), next_oid++, static_cast<int>(rng.below(3))});
        if (!seq && rng.chance(50)) {
            pinned = static_cast<int>(rng.below(NNAMES));
            setup.push_back(POp{ADDT, pinned, next_oid++, static_cast<int>(rng.below(3))});
        }
        // sequential model to know which names are present (seq mode only: addType on present names)
        for (int t = 0; t < nthreads; t++) {
            int nops = seq ? static_cast<int>(rng.range(5, 18)) : static_cast<int>(rng.range(2, 4));
            for (int i = 0; i < nops; i++) {
                POp p{0, 0, 0, 0};
                for (;;) {
                    p.op = static_cast<int>(rng.below(NOPS));
                    p.a = static_cast<int>(rng.below(NNAMES));
                    p.b = 0;
                    p.c = static_cast<int>(rng.below(3));
                    if (p.op == ADD || p.op == ADDT) {
                        if (rng.chance(8)) p.b = NULLOID;  // an empty pointer under this name
                        else {
                            if (next_oid > 14) continue;
                            p.b = next_oid++;
                        }
                    }
                    if (p.op == ADDTYPE) {
                        p.b = static_cast<int>(rng.below(3));
                        if (seq || rng.chance(40)) break;  // any name, also one that holds no object (just now)
                        if (pinned < 0) continue;
                        p.a = pinned;
                    }
                    if (p.op == CHECKTYPE) p.b = static_cast<int>(rng.below(3));
                    if (p.op == COPY) p.b = static_cast<int>(rng.below(NNAMES));
                    if (p.op == REMOVEPRED || p.op == FINDPRED || p.op == FINDPREDTYPE) {
                        p.a = static_cast<int>(rng.below(4));
                        p.b = (p.a == 0) ? static_cast<int>(rng.range(1, std::max(1, next_oid))) : static_cast<int>(rng.below(2));
                    }
                    if (!seq && pinned >= 0) {
                        if ((p.op == REMOVE && p.a == pinned) || (p.op == COPY && p.b == pinned) || p.op == REMOVEPRED) continue;
                    }
                    break;
                }
                scripts[static_cast<size_t>(t)].push_back(p);
            }
        }
        SOH* soh = new SOH();
        std::vector<LinOp> hist[vrf::MAXT + 1];
        std::vector<std::shared_ptr<Cell>> kept[vrf::MAXT + 1];
        std::string pj = "{\"setup\":" + vrf::jarr(setup.begin(), setup.end(), pop_json) + ",\"threads\":[";
        for (int t = 0; t < nthreads; t++) {
            if (t) pj += ",";
            pj += vrf::jarr(scripts[static_cast<size_t>(t)].begin(), scripts[static_cast<size_t>(t)].end(), pop_json);
        }
        pj += "]}";
        R.program(pj);
        run_thread(*soh, 0, setup, hist[vrf::MAXT], kept[vrf::MAXT]);
        if (seq) {
            // seq mode: the set of reference-model states that explain everything observed so far (the model is
            // non-deterministic where the statement is silent: tags attached to a bare name, aliased objects removed by predicate)
            std::vector<Model::State> frontier{Model::State{}};
            auto advance = [&](const LinOp& o, const std::vector<LinOp>& sofar) {
                std::vector<Model::State> next;
                for (auto& st : frontier) {
                    std::vector<Model::State> out;
                    Model::step(st, o, out);
                    for (auto& c : out)
                        if (std::find(next.begin(), next.end(), c) == next.end()) next.push_back(c);
                }
                if (next.empty())
                    vrf::violation("oracle:seq_result_not_allowed_by_reference_model",
                                   "{\"op\":" + vrf::linop_json(o, OPN) + ",\"history\":" +
                                       vrf::jarr(sofar.begin(), sofar.end(), [](const LinOp& x) { return vrf::linop_json(x, OPN); }) + "}");
                frontier.swap(next);
            };
            for (auto& o : hist[vrf::MAXT]) advance(o, hist[vrf::MAXT]);
            for (auto& p : scripts[0]) {
                std::vector<POp> one{p};
                size_t before = hist[0].size();
                run_thread(*soh, 0, one, hist[0], kept[0]);
                advance(hist[0][before], hist[0]);
                // the objects stored under each name are never ambiguous for long: ask the holder
                std::vector<Model::State> keep;
                for (auto& cand : frontier) {
                    bool okc = true;
                    for (int i = 0; i < NNAMES; i++) {
                        auto f = soh->findObject(NM(i));
                        uint8_t v = f ? static_cast<uint8_t>(f->value()) : 0;
                        if (v != (cand.oid[i] == NULLOID ? 0 : cand.oid[i])) okc = false;
                    }
                    if (okc) keep.push_back(cand);
                }
                if (keep.empty()) vrf::violation("oracle:seq_state_not_allowed_by_reference_model", "{}");
                frontier.swap(keep);
                if (frontier.size() > 1) vrf::count("seq_steps_with_several_model_states");
            }
            vrf::res.rounds_done++;
        } else {
            for (int t = 0; t < nthreads; t++)
                R.spawn([&, t] { run_thread(*soh, t, scripts[static_cast<size_t>(t)], hist[t], kept[t]); });
            R.run();
        }
        // merge + check linearizability (real-time order needs the synchronising clock)
        std::vector<LinOp> all = hist[vrf::MAXT];
        for (int t = 0; t < nthreads; t++) all.insert(all.end(), hist[t].begin(), hist[t].end());
        bool overlap = false;
        for (size_t i = 0; i < all.size() && !overlap; i++)
            for (size_t j = 0; j < all.size(); j++)
                if (all[i].thread != all[j].thread && all[i].call < all[j].ret && all[j].call < all[i].ret) {
                    overlap = true;
                    break;
                }
        if (vrf::clock_is_sync()) {
            uint64_t nodes = 0;
            auto v = vrf::lin_check<Model>(all, Model::State{}, 300000, &nodes);
            vrf::count("lin_nodes", nodes);
            if (v == vrf::LIN_VIOLATION)
                vrf::violation("oracle:not_linearizable", "{\"history\":" + vrf::jarr(all.begin(), all.end(), [](const LinOp& o) { return vrf::linop_json(o, OPN); }) + "}");
            if (v == vrf::LIN_INCONCLUSIVE) vrf::inconclusive("lin_budget_exceeded");
            else vrf::count("histories_checked");
        }
        uint64_t sig = R.sched_sig;
        for (auto& o : all) sig = vrf::mixhash(sig, static_cast<uint64_t>(o.op) * 1000003u + static_cast<uint64_t>(o.a) * 131 + static_cast<uint64_t>(o.b) * 7 + static_cast<uint64_t>(o.r));
        bool used_pred_removal = false;
        for (auto& o : all)
            if (o.op == REMOVEPRED && o.r == 1) used_pred_removal = true;
        vrf::note(sig, seq ? all.size() >= 4 : overlap);
        if (overlap) vrf::count("histories_with_overlapping_calls");
        if (used_pred_removal) vrf::count("successful_predicate_removals");
        for (auto& o : all) vrf::count(std::string("op_") + OPN[o.op]);
        if (r % 3000 == 0) vrf::sample("{\"program\":" + pj + ",\"history\":" + vrf::jarr(all.begin(), all.end(), [](const LinOp& o) { return vrf::linop_json(o, OPN); }) + "}");
        // empty the holder (its destructor waits for outside owners otherwise), 1 in 50 rounds exercises that wait
        if (!rng.chance(2))
            for (int i = 0; i < NNAMES; i++) soh->removeObject(NM(i));
        for (auto& k : kept) k.clear();
        delete soh;
        if (vrf::g_cell_live.load() != base_live)
            vrf::violation("oracle:objects_leaked_or_destroyed_twice", "{\"live\":" + std::to_string(vrf::g_cell_live.load() - base_live) + "}");
    }
    vrf::threshold("successful_predicate_removals", vrf::res.counters["successful_predicate_removals"], 1);
    vrf::finish();
}
