// C18 — every DelayedObjects future is fulfilled exactly once and never hangs.
#include "all_headers.hpp"
#include "vrf.hpp"
using gmlc::concurrency::DelayedObjects;
using vrf::LinOp;

enum Op { GET, SET, SETMOVE, FULFILL, FINISH, ISREC, ISCOMP, FUTVAL, NOPS };
static const char* const OPN[] = {"getFuture", "setDelayedValue(copy)", "setDelayedValue(move)", "fulfillAllPromises", "finishedWithValue", "isRecognized",
                                  "isCompleted", "future.get()"};
constexpr int NKEYS = 4;  // 0,1: integer keys 11, 12 ; 2,3: two string keys (family chosen by the round)
static std::string val_str(int64_t id) { return id == 0 ? std::string() : "delayed-value-with-heap-storage-" + std::to_string(id); }
static int64_t val_id(const std::string& s) { return s.empty() ? 0 : atol(s.c_str() + 32); }

struct Model {
    struct State {
        uint8_t phase[NKEYS];  // 0 unknown 1 pending 2 completed 3 finished
        uint8_t val[NKEYS];    // completion value (phases 2,3)
    };
    static uint64_t hash(const State& s)
    {
        uint64_t h = 0;
        for (int i = 0; i < NKEYS; i++) h = h * 1031 + s.phase[i] * 64u + s.val[i];
        return h;
    }
    static void step(const State& s, const LinOp& o, std::vector<State>& out)
    {
        State n = s;
        switch (o.op) {
            case GET:
                n.phase[o.a] = 1;  // requested once per key
                n.val[o.a] = 0;
                out.push_back(n);
                return;
            case SET:
            case SETMOVE:
                if (o.r2 == 1) {  // the value's copy constructor threw inside the call: no effect
                    out.push_back(n);
                    return;
                }
                if (s.phase[o.a] == 1) {
                    n.phase[o.a] = 2;
                    n.val[o.a] = static_cast<uint8_t>(o.b);
                }
                out.push_back(n);
                return;
            case FULFILL:
                if (o.r2 == 1) {
                    // the value's copy constructor threw for one of the pending keys: the keys served before it are completed
                    // with the value, the others are still pending (any proper subset of the pending keys; in which order
                    // the keys are served is not specified)
                    int pend[NKEYS], np = 0;
                    for (int i = 0; i < NKEYS; i++)
                        if (s.phase[i] == 1) pend[np++] = i;
                    for (unsigned mask = 0; mask + 1 < (1u << np); mask++) {
                        State m = s;
                        for (int j = 0; j < np; j++)
                            if (mask & (1u << j)) {
                                m.phase[pend[j]] = 2;
                                m.val[pend[j]] = static_cast<uint8_t>(o.b);
                            }
                        out.push_back(m);
                    }
                    return;
                }
                for (int i = 0; i < NKEYS; i++)
                    if (s.phase[i] == 1) {
                        n.phase[i] = 2;
                        n.val[i] = static_cast<uint8_t>(o.b);
                    }
                out.push_back(n);
                return;
            case FINISH:
                if (s.phase[o.a] == 2) n.phase[o.a] = 3;
                out.push_back(n);
                return;
            case ISREC:
                if ((o.r != 0) == (s.phase[o.a] == 1 || s.phase[o.a] == 2)) out.push_back(n);
                return;
            case ISCOMP:
                if ((o.r != 0) == (s.phase[o.a] == 2)) out.push_back(n);
                return;
            case FUTVAL:  // after destruction: the completion value, or the default for a promise still pending at destruction
                if (s.phase[o.a] == 1 ? o.r == 0 : (s.phase[o.a] >= 2 && o.r == s.val[o.a])) out.push_back(n);
                return;
        }
    }
};

struct POp {
    int op, key, val;
    bool inject = false;  // SET (copy overload): the value's copy constructor throws inside the call
};
// the delayed value type: heap-owning, and its copy constructor can be made to throw (user code running inside the container)
struct VX {
    std::string s;
    VX() {}  // user-provided and not noexcept, like most payload types with a bit of logic in their default constructor
    explicit VX(std::string t): s(std::move(t)) {}
    VX(const VX& o)
    {
        vrf::maybe_throw(1);
        s = o.s;
    }
    VX(VX&& o) noexcept: s(std::move(o.s)) {}
    VX& operator=(const VX& o)
    {
        vrf::maybe_throw(2);
        s = o.s;
        return *this;
    }
    VX& operator=(VX&& o) noexcept
    {
        s = std::move(o.s);
        return *this;
    }
};
using DO = DelayedObjects<VX>;

static void run_thread(DO& d, int tid, const std::vector<POp>& script, std::vector<LinOp>& hist, std::future<VX>* futs, std::atomic<int>* have_fut,
                       std::atomic<uint64_t>& consumer_got)
{
    static const int ikeys[] = {11, 12};
    // string keys come in families: plain names, a name with an embedded NUL next to its own prefix, the empty name next to
    // a one-NUL name, and names too long for the small-string buffer that differ only in the last character
    auto skey = [](int i) -> std::string {
        switch (vrf::res.cur_round % 4) {
            case 1: return i == 0 ? std::string("ab") : std::string("ab\0cd", 5);
            case 2: return i == 0 ? std::string() : std::string(1, '\0');
            case 3: return std::string(40, 'k') + (i == 0 ? "0" : "1");
            default: return i == 0 ? std::string("alpha") : std::string("beta");
        }
    };
    for (const POp& p : script) {
        LinOp o;
        o.thread = tid;
        o.op = p.op;
        o.a = p.key;
        o.b = p.val;
        bool isint = p.key < 2;
        o.call = vrf::now();
        try {
            switch (p.op) {
                case GET:
                    futs[p.key] = isint ? d.getFuture(ikeys[p.key]) : d.getFuture(skey(p.key - 2));
                    have_fut[p.key].store(1, std::memory_order_release);
                    break;
                case SET: {
                    VX v(val_str(p.val));
                    // not in TSan builds: promise::set_value runs the copy inside call_once, and TSan's pthread_once interceptor does
                    // not survive an exception thrown through it (the once flag stays "in progress": the next set_value on that
                    // promise - the container's destructor - spins forever). A tool artefact, observed on the unchanged tree.
                    const bool inject = p.inject && !VRF_TSAN;
                    if (inject) vrf::fault_arm(1u << 1, 1, (p.val % 2) == 1);
                    try {
                        if (isint) d.setDelayedValue(ikeys[p.key], v);
                        else d.setDelayedValue(skey(p.key - 2), v);
                    }
                    catch (const vrf::Injected&) {
                        o.r2 = 1;  // the copy threw: the call must have had no effect (the key stays pending)
                    }
                    if (inject) vrf::fault_disarm();
                    if (vrf::held_count() != 0) vrf::violation("oracle:lock_not_released_after_throw", "{\"op\":\"setDelayedValue\"}");
                    break;
                }
                case SETMOVE:
                    if (isint) d.setDelayedValue(ikeys[p.key], VX(val_str(p.val)));
                    else d.setDelayedValue(skey(p.key - 2), VX(val_str(p.val)));
                    break;
                case FULFILL: {
                    VX v(val_str(p.val));
                    // the k-th copy of the value throws (see SET for TSan): the keys served so far are complete, the rest
                    // stays pending, and the container goes on working for all of them
                    const bool inject = p.inject && !VRF_TSAN;
                    if (inject) vrf::fault_arm(1u << 1, 1 + p.key % 3, (p.val % 2) == 1);
                    try {
                        if (p.val % 2 || inject) d.fulfillAllPromises(v);
                        else d.fulfillAllPromises(VX(val_str(p.val)));  // an rvalue: every pending promise still gets the value
                    }
                    catch (const vrf::Injected&) {
                        o.r2 = 1;
                        vrf::count("fulfillAllPromises_calls_with_a_throwing_copy");
                    }
                    if (inject) vrf::fault_disarm();
                    if (vrf::held_count() != 0) vrf::violation("oracle:lock_not_released_after_throw", "{\"op\":\"fulfillAllPromises\"}");
                    break;
                }
                case FINISH:
                    if (isint) d.finishedWithValue(ikeys[p.key]);
                    else d.finishedWithValue(skey(p.key - 2));
                    break;
                case ISREC: o.r = isint ? d.isRecognized(ikeys[p.key]) : d.isRecognized(skey(p.key - 2)); break;
                case ISCOMP: o.r = isint ? d.isCompleted(ikeys[p.key]) : d.isCompleted(skey(p.key - 2)); break;
                case FUTVAL: {
                    // consumer: wait (bounded) on a future somebody else requested; the value is judged at the end of the round
                    if (have_fut[p.key].load(std::memory_order_acquire)) {
                        for (int i = 0; i < 25 && !vrf::is_ready(futs[p.key]); i++) vrf::hyield();
                        if (vrf::is_ready(futs[p.key])) consumer_got.fetch_add(1, std::memory_order_relaxed);
                    }
                    continue;  // not part of the history
                }
            }
        }
        catch (const std::exception& e) {
            vrf::violation("oracle:exception_escaped_the_api", "{\"op\":\"" + std::string(OPN[p.op]) + "\",\"what\":" + vrf::jstr(e.what()) + "}");
        }
        o.ret = vrf::now();
        hist.push_back(o);
    }
}

// payloads without a constructor: a future still pending when the container dies receives a default-constructed - that is,
// value-initialised - X: 0, nullptr, all-zero fields, whatever the stack held a moment before
struct PodPayload {
    int a;
    double b;
    const char* c;
};
template<class X, class IsDefault>
static void default_value_case(long r, const char* what, IsDefault is_default)
{
    std::future<X> f1, f2, f3;
    vrf::run_checked(r, [&] {
        volatile unsigned char dirt[256];  // something non-zero on the stack the destructor is about to use
        for (auto& d : dirt) d = 0x5a;
        DelayedObjects<X> d;
        f1 = d.getFuture(7);
        f2 = d.getFuture(std::string("pending"));
        f3 = d.getFuture(8);
        d.setDelayedValue(8, X{});
    });
    for (auto* f : {&f1, &f2, &f3}) {
        if (!vrf::is_ready(*f)) vrf::violation("oracle:future_not_ready_after_destruction", std::string("{\"payload\":\"") + what + "\"}");
        X v = f->get();
        if (!is_default(v)) vrf::violation("oracle:future_of_a_key_pending_at_destruction_holds_a_non_default_value", std::string("{\"payload\":\"") + what + "\"}");
    }
    vrf::count("default_value_cases");
}
static void default_value_round(long r)
{
    default_value_case<int>(r, "int", [](int v) { return v == 0; });
    default_value_case<const char*>(r, "const char*", [](const char* v) { return v == nullptr; });
    default_value_case<PodPayload>(r, "struct without constructor", [](const PodPayload& v) { return v.a == 0 && v.b == 0.0 && v.c == nullptr; });
}

int main(int argc, char** argv)
{
    vrf::init(argc, argv, "C18");
    bool seq = vrf::cfg.mode == "seq";
    for (long r = 0; r < vrf::cfg.rounds; r++) {
        if (!vrf::want_round(r)) continue;
        if (r % 16 == 0) default_value_round(r);
        vrf::Round R(r);
        auto& rng = R.rng;
        int nt = seq ? 1 : static_cast<int>(rng.range(2, 4));
        std::vector<std::vector<POp>> scripts(static_cast<size_t>(nt));
        bool requested[NKEYS] = {false, false, false, false};
        int next_val = 1;
        // some keys are requested up front (setup), others by a thread of the round, some never
        std::vector<POp> setup;
        for (int k = 0; k < NKEYS; k++)
            if (rng.chance(45)) {
                setup.push_back(POp{GET, k, 0});
                requested[k] = true;
            }
        for (int t = 0; t < nt; t++) {
            int n = seq ? static_cast<int>(rng.range(4, 16)) : static_cast<int>(rng.range(2, 5));
            for (int i = 0; i < n; i++) {
                POp p{0, static_cast<int>(rng.below(NKEYS)), 0};
                unsigned k = static_cast<unsigned>(rng.below(100));
                if (k < 12) {
                    if (requested[p.key]) {
                        i--;
                        if (rng.chance(50)) i++;
                        continue;
                    }
                    p.op = GET;
                    requested[p.key] = true;
                } else if (k < 40) {
                    p.op = rng.chance(50) ? SET : SETMOVE;
                    p.val = next_val++;
                    p.inject = (p.op == SET) && rng.chance(15);
                } else if (k < 50) {
                    p.op = FULFILL;
                    p.val = next_val++;
                    p.inject = rng.chance(30);
                } else if (k < 62) p.op = FINISH;
                else if (k < 76) p.op = ISREC;
                else if (k < 90) p.op = ISCOMP;
                else p.op = seq ? ISREC : FUTVAL;
                if (next_val > 60) break;
                scripts[static_cast<size_t>(t)].push_back(p);
            }
        }
        auto pj_ops = [](const std::vector<POp>& v) {
            return vrf::jarr(v.begin(), v.end(), [](const POp& p) {
                return std::string("{\"op\":\"") + OPN[p.op] + "\",\"key\":" + std::to_string(p.key) + ",\"val\":" + std::to_string(p.val) + (p.inject ? ",\"copy_throws\":1" : "") + "}";
            });
        };
        std::string pj = "{\"setup\":" + pj_ops(setup) + ",\"threads\":[";
        for (int t = 0; t < nt; t++) pj += (t ? "," : "") + pj_ops(scripts[static_cast<size_t>(t)]);
        pj += "]}";
        R.program(pj);
        DO* d = new DO();
        std::future<VX> futs[NKEYS];
        std::atomic<int> have_fut[NKEYS];
        for (auto& h : have_fut) h.store(0);
        std::atomic<uint64_t> consumer_got{0};
        std::vector<LinOp> hist[vrf::MAXT + 1];
        run_thread(*d, 7, setup, hist[vrf::MAXT], futs, have_fut, consumer_got);
        if (seq) {
            run_thread(*d, 0, scripts[0], hist[0], futs, have_fut, consumer_got);
            vrf::res.rounds_done++;
        } else {
            for (int t = 0; t < nt; t++) R.spawn([&, t] { run_thread(*d, t, scripts[static_cast<size_t>(t)], hist[t], futs, have_fut, consumer_got); });
            R.run();
        }
        if (vrf::global_held_count() != 0) vrf::violation("oracle:lock_leaked_at_quiescence", "{}");
        // destroy the container with futures outstanding: every future must be ready afterwards
        uint64_t pending_at_destruction = 0;
        for (int k = 0; k < NKEYS; k++)
            if (have_fut[k].load() && !vrf::is_ready(futs[k])) pending_at_destruction++;
        vrf::run_checked(r, [&] {
            try {
                delete d;
            }
            catch (const std::exception& e) {
                vrf::violation("oracle:exception_escaped_the_api", "{\"op\":\"destructor\",\"what\":" + vrf::jstr(e.what()) + "}");
            }
        });
        std::vector<LinOp> all = hist[vrf::MAXT];
        for (int t = 0; t < nt; t++) all.insert(all.end(), hist[t].begin(), hist[t].end());
        for (int k = 0; k < NKEYS; k++) {
            if (!have_fut[k].load()) continue;
            if (!futs[k].valid()) vrf::violation("oracle:future_without_state", "{\"key\":" + std::to_string(k) + "}");
            if (!vrf::is_ready(futs[k])) vrf::violation("oracle:future_not_ready_after_container_destruction", "{\"key\":" + std::to_string(k) + "}");
            LinOp o;
            o.thread = 8;
            o.op = FUTVAL;
            o.a = k;
            o.call = vrf::now();
            try {
                std::string v = futs[k].get().s;
                o.r = val_id(v);
                if (v != val_str(o.r)) vrf::violation("oracle:future_value_corrupt", vrf::jstr(v));
            }
            catch (const std::exception& e) {
                vrf::violation("oracle:future_holds_an_exception", "{\"key\":" + std::to_string(k) + ",\"what\":" + vrf::jstr(e.what()) + "}");
            }
            o.ret = vrf::now();
            all.push_back(o);
        }
        bool overlap = false;
        for (size_t i = 0; i < all.size() && !overlap; i++)
            for (size_t j = 0; j < all.size(); j++)
                if (all[i].thread != all[j].thread && all[i].call < all[j].ret && all[j].call < all[i].ret) {
                    overlap = true;
                    break;
                }
        if (vrf::clock_is_sync()) {
            uint64_t nodes = 0;
            auto v = vrf::lin_check<Model>(all, Model::State{}, 300000, &nodes);
            vrf::count("lin_nodes", nodes);
            if (v == vrf::LIN_VIOLATION)
                vrf::violation("oracle:not_linearizable", "{\"history\":" + vrf::jarr(all.begin(), all.end(), [](const LinOp& o) { return vrf::linop_json(o, OPN); }) + "}");
            if (v == vrf::LIN_INCONCLUSIVE) vrf::inconclusive("lin_budget_exceeded");
            else vrf::count("histories_checked");
        }
        uint64_t sig = R.sched_sig;
        for (auto& o : all) sig = vrf::mixhash(sig, static_cast<uint64_t>(o.op) * 1000003u + static_cast<uint64_t>(o.a) * 131 + static_cast<uint64_t>(o.b) * 7 + static_cast<uint64_t>(o.r));
        vrf::note(sig, seq ? all.size() >= 5 : overlap || !vrf::clock_is_sync());
        vrf::count("futures_pending_at_container_destruction", pending_at_destruction);
        vrf::count("futures_seen_ready_by_a_waiting_consumer", consumer_got.load());
        for (auto& o : all) vrf::count(std::string("op_") + OPN[o.op]);
        if (r % 3000 == 0) vrf::sample("{\"program\":" + pj + ",\"history\":" + vrf::jarr(all.begin(), all.end(), [](const LinOp& o) { return vrf::linop_json(o, OPN); }) + "}");
    }
    vrf::threshold("futures_pending_at_container_destruction", vrf::res.counters["futures_pending_at_container_destruction"], 1);
    vrf::finish();
}
