// C19 — a trip line is one-way, per line, and publishes what preceded it.
#include "all_headers.hpp"
// a detector and a trigger of static storage duration on the declared line, defined before the line's own definition (a
// process-lifetime shutdown trigger): they are constructed before anything DECLARE_TRIPLINE() may define at namespace scope
static gmlc::concurrency::TripWireDetector g_early_detector;
static std::unique_ptr<gmlc::concurrency::TripWireTrigger> g_early_trigger(new gmlc::concurrency::TripWireTrigger());
DECLARE_TRIPLINE()
DECLARE_INDEXED_TRIPLINES(4096)
#include "vrf.hpp"
using namespace gmlc::concurrency;

struct Shared {
    std::atomic<uint64_t> trip_call{0}, trip_ret{0};
    int payload = 0;  // plain on purpose: written before the trigger dies, read after observing the trip
    char pad[64];
    int payload2 = 0;
};

// what the trigger thread does with its trigger object(s) before the line trips
enum Life { DIRECT, MOVE_CTOR, MOVE_CTOR_CHAIN, MOVE_ASSIGN, TWO_TRIGGERS, SELF_MOVE_ASSIGN, NLIFE };
static const char* LIFEN[] = {"direct", "move_ctor", "move_ctor_chain", "move_assign", "two_triggers", "self_move_assign"};

template<class MakeTrig, class MakeDet, class MakeDet2, class MakeTrig2, class MakeDet3>
static void scenario(vrf::Round& R, const char* kind, MakeTrig make_trigger, MakeDet make_detector, MakeDet2 make_other_detector,
                     MakeTrig2 make_scratch_trigger, MakeDet3 make_scratch_detector, std::function<void()> drop_creator_refs = nullptr)
{
    auto& rng = R.rng;
    int life = static_cast<int>(rng.below(NLIFE));
    int ndet = static_cast<int>(rng.range(1, 3));
    int nother = static_cast<int>(rng.range(0, 1));
    int pre_delay = static_cast<int>(rng.range(0, 6));
    int value = static_cast<int>(rng.range(1, 1000000));
    bool second_trigger = rng.chance(40);
    Shared sh;
    // hand-over mode (explicit lines only): the trigger and the detectors are built first, then the creator gives up every
    // handle of its own, so that only the trigger and the detectors still refer to the line
    bool handover = drop_creator_refs && rng.chance(50);
    std::unique_ptr<TripWireTrigger> prebuilt_trigger;
    std::vector<std::unique_ptr<TripWireDetector>> prebuilt_det;
    std::unique_ptr<TripWireDetector> final_det;
    std::atomic<int> t0_done{0};
    std::atomic<uint64_t> seen_true{0}, seen_false{0}, polls_after{0};
    if (handover && life == TWO_TRIGGERS) life = DIRECT;
    if (handover) {
        prebuilt_trigger.reset(new TripWireTrigger(make_trigger()));
        for (int d = 0; d < ndet; d++) prebuilt_det.emplace_back(new TripWireDetector(make_detector()));
        final_det.reset(new TripWireDetector(make_detector()));
    }
    R.program(std::string("{\"line\":\"") + kind + "\",\"creator_keeps_a_handle\":" + (handover ? "0" : "1") + ",\"life\":\"" + LIFEN[life] + "\",\"detectors\":" + std::to_string(ndet) +
              ",\"other_line_detectors\":" + std::to_string(nother) + ",\"pre_delay\":" + std::to_string(pre_delay) + ",\"second_trigger_afterwards\":" + (second_trigger ? "1" : "0") + "}");
    R.spawn([&] {
        // the trigger thread
        std::unique_ptr<TripWireTrigger> keep_other;
        {
            std::unique_ptr<TripWireTrigger> t1(handover ? prebuilt_trigger.release() : new TripWireTrigger(make_trigger()));
            std::unique_ptr<TripWireTrigger> final_owner;
            for (int i = 0; i < pre_delay; i++) vrf::hyield();
            switch (life) {
                case DIRECT: final_owner = std::move(t1); break;
                case MOVE_CTOR: {
                    final_owner.reset(new TripWireTrigger(std::move(*t1)));
                    vrf::user_point();
                    t1.reset();  // destroying the moved-from trigger must neither crash nor trip
                    break;
                }
                case MOVE_CTOR_CHAIN: {
                    std::unique_ptr<TripWireTrigger> t2(new TripWireTrigger(std::move(*t1)));
                    final_owner.reset(new TripWireTrigger(std::move(*t2)));
                    if (rng.chance(50)) {
                        t1.reset();
                        vrf::user_point();
                        t2.reset();
                    } else {
                        t2.reset();
                        vrf::user_point();
                        t1.reset();
                    }
                    break;
                }
                case MOVE_ASSIGN: {
                    // a trigger of a third line (watched by nobody: what happens to the line of an assigned-over
                    // trigger is not specified) takes over the duty by move assignment
                    final_owner.reset(new TripWireTrigger(make_scratch_trigger()));
                    *final_owner = std::move(*t1);
                    vrf::user_point();
                    {
                        // destroying the moved-from trigger "does not trip anything": neither the line it handed over
                        // (watched by the detectors) nor the line of the trigger that was assigned over
                        TripWireDetector sd = make_scratch_detector();
                        bool before = sd.isTripped();
                        t1.reset();
                        if (sd.isTripped() != before) vrf::violation("oracle:destroying_a_moved_from_trigger_tripped_a_line", "{\"line\":\"the one of the assigned-over trigger\"}");
                    }
                    break;
                }
                case TWO_TRIGGERS: {
                    final_owner = std::move(t1);
                    keep_other.reset(new TripWireTrigger(make_trigger()));
                    break;
                }
                case SELF_MOVE_ASSIGN: {
                    // a trigger move-assigned to itself (an alias, a compaction loop) is still the trigger of its line
                    TripWireTrigger& alias = *t1;
                    *t1 = std::move(alias);
                    vrf::user_point();
                    final_owner = std::move(t1);
                    break;
                }
            }
            for (int i = 0; i < 3; i++) vrf::hyield();
            sh.payload = value;
            sh.payload2 = value ^ 0x5a5a;
            sh.trip_call.store(vrf::now(), std::memory_order_relaxed);
            final_owner.reset();  // trips the line
            sh.trip_ret.store(vrf::now(), std::memory_order_relaxed);
            // one-way also against a second use: another trigger built on the tripped line, while it lives and after it died,
            // leaves the line tripped (the polling detectors watch for a relapse as well)
            if (!handover && second_trigger) {
                std::unique_ptr<TripWireTrigger> again(new TripWireTrigger(make_trigger()));
                vrf::hyield();
                if (!make_detector().isTripped()) vrf::violation("oracle:trip_line_re_armed_by_a_second_trigger", "{\"when\":\"second trigger alive\"}");
                again.reset();
                if (!make_detector().isTripped()) vrf::violation("oracle:trip_line_re_armed_by_a_second_trigger", "{\"when\":\"second trigger destroyed\"}");
            }
        }
        t0_done.store(1, std::memory_order_relaxed);
        for (int i = 0; i < 2; i++) vrf::hyield();
        keep_other.reset();
    });
    for (int d = 0; d < ndet; d++) {
        R.spawn([&, d] {
            TripWireDetector det = handover ? std::move(*prebuilt_det[static_cast<size_t>(d)]) : make_detector();
            bool was = false;
            int after = 0;
            for (long it = 0;; it++) {
                uint64_t c = vrf::now();
                bool v = det.isTripped();
                uint64_t r = vrf::now();
                if (v) {
                    uint64_t tc = sh.trip_call.load(std::memory_order_relaxed);
                    if (tc == 0 || (vrf::clock_is_sync() && r < tc))
                        vrf::violation("oracle:tripped_before_any_trigger_was_destroyed", "{\"detector\":" + std::to_string(d) + "}");
                    // publication: everything written before the trigger died is visible now
                    if (sh.payload != value || sh.payload2 != (value ^ 0x5a5a))
                        vrf::violation("oracle:data_written_before_trip_not_visible", "{\"payload\":" + std::to_string(sh.payload) + "}");
                    was = true;
                    seen_true.fetch_add(1, std::memory_order_relaxed);
                    if (++after > 3) break;
                } else {
                    if (was) vrf::violation("oracle:trip_line_went_back_to_false", "{\"detector\":" + std::to_string(d) + "}");
                    uint64_t tr = sh.trip_ret.load(std::memory_order_relaxed);
                    if (vrf::clock_is_sync() && tr != 0 && tr < c)
                        vrf::violation("oracle:not_tripped_after_trigger_destruction_returned", "{\"detector\":" + std::to_string(d) + "}");
                    seen_false.fetch_add(1, std::memory_order_relaxed);
                    if (tr != 0) polls_after.fetch_add(1, std::memory_order_relaxed);
                }
                vrf::hyield();
            }
        });
    }
    for (int d = 0; d < nother; d++) {
        R.spawn([&] {
            TripWireDetector det = make_other_detector();
            for (;;) {
                if (det.isTripped()) vrf::violation("oracle:other_line_tripped", "{}");
                if (t0_done.load(std::memory_order_relaxed)) break;
                vrf::hyield();
            }
            for (int i = 0; i < 3; i++) {
                vrf::hyield();
                if (det.isTripped()) vrf::violation("oracle:other_line_tripped", "{}");
            }
        });
    }
    if (handover) drop_creator_refs();
    R.run();
    // a detector that was not polling (any thread) sees the line tripped afterwards
    if (handover) {
        if (!final_det->isTripped()) vrf::violation("oracle:not_tripped_after_trigger_destruction_returned", "{\"detector\":\"idle, creator handle dropped\"}");
        vrf::count("rounds_where_only_trigger_and_detectors_refer_to_the_line");
    } else if (!make_detector().isTripped()) vrf::violation("oracle:not_tripped_after_trigger_destruction_returned", "{\"detector\":\"fresh\"}");
    vrf::note(vrf::mixhash(vrf::mixhash(R.sched_sig, static_cast<uint64_t>(life * 64 + ndet * 8 + nother)), seen_false.load() * 1315423911u + seen_true.load()),
              seen_false.load() > 0 && seen_true.load() > 0);
    vrf::count(std::string("life_") + LIFEN[life]);
    vrf::count("polls_false", seen_false.load());
    vrf::count("polls_true", seen_true.load());
    if (R.index % 4000 == 0) vrf::sample(vrf::res.cur_program);
}

int main(int argc, char** argv)
{
    vrf::init(argc, argv, "C19");
    const std::string mode = vrf::cfg.mode;
    unsigned next_index = 0;  // indexed lines are one-shot and per process: fresh ones every round
    for (long r = 0; r < vrf::cfg.rounds; r++) {
        if (!vrf::want_round(r)) continue;
        vrf::Round R(r);
        if (mode == "declared") {
            // one process = one scenario (the declared line is a process-wide singleton)
            TriplineType other = make_tripline();
            TriplineType scratch = make_tripline();
            // in half of the processes the trigger of the scenario is the one that was built during static initialisation
            bool early = R.rng.chance(50);
            if (g_early_detector.isTripped()) vrf::violation("oracle:declared_line_tripped_before_any_trigger_died", "{}");
            scenario(R, early ? "declared, trigger built during static initialisation" : "declared",
                     [early, used = std::make_shared<bool>(false)] {
                         if (early && !*used) {
                             *used = true;
                             return TripWireTrigger(std::move(*g_early_trigger));
                         }
                         return TripWireTrigger();
                     }, [] { return TripWireDetector(); },
                     [other] { return TripWireDetector(other); }, [scratch] { return TripWireTrigger(scratch); },
                     [scratch] { return TripWireDetector(scratch); });
            if (!g_early_detector.isTripped()) vrf::violation("oracle:early_detector_on_the_declared_line_not_tripped", "{}");
            vrf::count("declared_line_static_lifetime_objects_checked");
            break;
        }
        bool indexed = (mode == "indexed" || R.rng.chance(30)) && next_index + 3 <= 4096 && vrf::cfg.only_round < 0;
        if (indexed) {
            unsigned idx = next_index, oidx = next_index + 1, sidx = next_index + 2;
            next_index += 3;
            // out-of-range indices are rejected
            // out-of-range indices: just past the end, and the far ones a negative "no line" value turns into
            static const unsigned far[] = {0x7fffffffu, 0x80000000u, 0x80000008u, 0xfffffffeu, 0xffffffffu};
            unsigned bad = R.rng.chance(40) ? far[R.rng.below(5)] : 4096 + static_cast<unsigned>(R.rng.below(1000));
            bool threw = false;
            try {
                TripWireDetector d(bad);
                (void)d;
            }
            catch (const std::out_of_range&) {
                threw = true;
            }
            if (!threw) vrf::violation("oracle:out_of_range_index_accepted", "{\"what\":\"detector\",\"index\":" + std::to_string(bad) + "}");
            threw = false;
            try {
                TripWireTrigger t(bad);
                (void)t;
            }
            catch (const std::out_of_range&) {
                threw = true;
            }
            if (!threw) vrf::violation("oracle:out_of_range_index_accepted", "{\"what\":\"trigger\",\"index\":" + std::to_string(bad) + "}");
            vrf::count("out_of_range_probes", 2);
            scenario(R, "indexed", [idx] { return TripWireTrigger(idx); }, [idx] { return TripWireDetector(idx); },
                     [oidx] { return TripWireDetector(oidx); }, [sidx] { return TripWireTrigger(sidx); }, [sidx] { return TripWireDetector(sidx); });
            if (TripWireDetector(oidx).isTripped()) vrf::violation("oracle:other_line_tripped", "{\"index\":" + std::to_string(oidx) + "}");
            vrf::count("indexed_rounds");
        } else {
            auto line = std::make_shared<TriplineType>(make_tripline());  // the creator's only handle (can be given up)
            TriplineType other = make_tripline();
            TriplineType scratch = make_tripline();
            scenario(R, "explicit", [line] { return TripWireTrigger(*line); }, [line] { return TripWireDetector(*line); },
                     [other] { return TripWireDetector(other); }, [scratch] { return TripWireTrigger(scratch); },
                     [scratch] { return TripWireDetector(scratch); }, [line] { line->reset(); });
        }
    }
    vrf::finish();
}
