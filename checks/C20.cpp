// C20 — throwing user code never leaves a wrapper locked or half-modified.
// Fault engine: for each scenario a fault-free dry run counts the invocations K of the user-code sites it reaches;
// then for every k = 1..K the k-th invocation throws vrf::Injected (throw-point space enumerated completely).
#include "all_headers.hpp"
#include "vrf.hpp"
using namespace gmlc::libguarded;
using namespace gmlc::concurrency;
using vrf::Cell;
using vrf::Injected;
using vrf::Win;

enum Site { S_COPY = 1, S_ASSIGN = 2, S_EQ = 3, S_PRED = 4, S_FUNCTOR = 10, S_CALLBACK = 11 };
constexpr uint32_t M_COPYASSIGN = (1u << S_COPY) | (1u << S_ASSIGN);
constexpr uint32_t M_VALUE = M_COPYASSIGN | (1u << S_EQ);
constexpr uint32_t M_FUNCTOR = 1u << S_FUNCTOR;

struct Scenario {
    std::string name;
    uint32_t mask = 0;
    bool expect_propagate = true;          // a throw must reach the caller (otherwise: captured / swallowed as documented)
    bool twice = false;                    // double fault: the enabled site invoked next after the throwing one throws as well
    std::function<void()> thrower;         // runs between fault_arm and fault_disarm on the faulting thread
    std::function<void(bool threw, long k)> after;   // same thread, after unwinding (lock must be free by now)
    std::function<void()> partner;         // concurrent thread (optional)
    std::function<void(bool threw, long k)> verify;  // after the round
};

static std::vector<uint32_t> lr_read(lr_guarded<Cell, vrf::mutex_t>& lr)
{
    auto h = lr.lock_shared();
    Win w(*h, false);
    h->check("lr read");
    return h->log();
}
static bool has(const std::vector<uint32_t>& v, uint32_t x) { return std::find(v.begin(), v.end(), x) != v.end(); }
static void vio(const std::string& key, const std::string& scen, const std::string& extra = "")
{
    vrf::violation(key, "{\"scenario\":" + vrf::jstr(scen) + (extra.empty() ? "" : ",\"info\":" + extra) + "}");
}

constexpr int NSCEN = 18;
static Scenario make_scenario(int idx, bool concurrent)
{
    Scenario s;
    switch (idx) {
        case 0: {  // lr_guarded::modify, functor throws in the first or the second application
            auto lr = std::make_shared<lr_guarded<Cell, vrf::mutex_t>>(false);
            lr->modify([](Cell& c) {
                Win w(c, true);
                c.append_raw(1);
            });
            s.name = "lr_guarded::modify functor";
            s.mask = M_FUNCTOR;
            s.thrower = [lr] {
                lr->modify([](Cell& c) {
                    Win w(c, true);
                    vrf::maybe_throw(S_FUNCTOR);
                    c.append_raw(5);
                });
            };
            s.after = [lr, name = s.name](bool threw, long k) {
                auto a = lr_read(*lr);
                lr->modify([](Cell& c) {
                    Win w(c, true);
                    c.check("noop");
                });
                auto b = lr_read(*lr);
                // all-or-nothing, and both copies agree (two reads around a side flip)
                bool want5 = !threw || k == 2;
                if (has(a, 5) != want5 || has(b, 5) != want5)
                    vio("oracle:lr_modify_not_all_or_nothing", name, "{\"k\":" + std::to_string(k) + ",\"a\":" + vrf::jnums(a) + ",\"b\":" + vrf::jnums(b) + "}");
                std::vector<uint32_t> a2, b2;  // ignore the partner's id (99): it may land between the two reads
                for (auto v : a)
                    if (v != 99) a2.push_back(v);
                for (auto v : b)
                    if (v != 99) b2.push_back(v);
                if (a2 != b2) vio("oracle:two_copies_differ_after_throw", name, "{\"a\":" + vrf::jnums(a) + ",\"b\":" + vrf::jnums(b) + "}");
            };
            s.partner = [lr] {
                for (int i = 0; i < 2; i++) {
                    auto v = lr_read(*lr);
                    if (!has(v, 1)) vrf::violation("oracle:lr_reader_saw_inconsistent_value", vrf::jnums(v));
                    vrf::hyield();
                }
                lr->modify([](Cell& c) {
                    Win w(c, true);
                    c.append_raw(99);
                });
                (void)lr_read(*lr);
            };
            s.verify = [lr, concurrent, name = s.name](bool, long) {
                auto v = lr_read(*lr);
                if (!has(v, 1) || (concurrent && !has(v, 99))) vio("oracle:lost_update", name, vrf::jnums(v));
            };
            break;
        }
        case 1:
        case 2:
        case 3:
        case 4: {  // ordered_guarded modify(void) / modify(ret) / read(void) / read(ret)
            auto og = std::make_shared<ordered_guarded<Cell, vrf::shared_timed_mutex_t>>(false);
            static const char* nm[] = {"", "ordered_guarded::modify(void) functor", "ordered_guarded::modify(ret) functor", "ordered_guarded::read(void) functor",
                                       "ordered_guarded::read(ret) functor"};
            s.name = nm[idx];
            s.mask = M_FUNCTOR;
            s.thrower = [og, idx] {
                if (idx == 1) og->modify([](Cell& c) {
                    Win w(c, true);
                    vrf::maybe_throw(S_FUNCTOR);
                    c.append_raw(5);
                });
                else if (idx == 2) (void)og->modify([](Cell& c) {
                    Win w(c, true);
                    vrf::maybe_throw(S_FUNCTOR);
                    c.append_raw(5);
                    return 1;
                });
                else if (idx == 3) og->read([](const Cell& c) {
                    Win w(c, false);
                    vrf::maybe_throw(S_FUNCTOR);
                    c.check("read");
                });
                else (void)og->read([](const Cell& c) {
                    Win w(c, false);
                    vrf::maybe_throw(S_FUNCTOR);
                    return static_cast<int>(c.n);
                });
            };
            s.after = [og](bool, long) {
                {
                    auto h = og->lock_shared();  // completes only if the aborted call released its lock
                    Win w(*h, false);
                    h->check("after throw");
                }
                // ... and the wrapper works as before for the thread that caught the exception: its next modification is
                // exclusive again (the partner may be inside its own at this very moment)
                og->modify([](Cell& c) {
                    Win w(c, true);
                    vrf::user_point();
                    c.append_raw(6);
                    vrf::user_point();
                });
            };
            s.partner = [og] {
                og->modify([](Cell& c) {
                    Win w(c, true);
                    vrf::user_point();
                    c.append_raw(99);
                    vrf::user_point();
                });
                auto h = og->lock_shared();
                Win w(*h, false);
                h->check("partner");
            };
            s.verify = [og, idx, concurrent, name = s.name](bool threw, long) {
                auto h = og->lock_shared();
                auto v = h->log();
                bool want5 = (idx <= 2) && !threw;
                if (has(v, 5) != want5 || !has(v, 6) || (concurrent && !has(v, 99))) vio("oracle:object_state_wrong_after_throw", name, vrf::jnums(v));
            };
            break;
        }
        case 5:
        case 6:
        case 7: {  // guarded / guarded_opt: store, operator=, load with throwing copy / assignment
            auto g = std::make_shared<guarded<Cell, vrf::timed_mutex_t>>(true);
            g->store(vrf::make_value(1));
            auto val = std::make_shared<Cell>(vrf::make_value(5));
            static const char* nm[] = {"guarded::store (assignment throws)", "guarded::operator= (assignment throws)", "guarded::load (copy throws)"};
            s.name = nm[idx - 5];
            s.mask = M_COPYASSIGN;
            s.thrower = [g, val, idx] {
                if (idx == 5) g->store(*val);
                else if (idx == 6) *g = *val;
                else {
                    Cell c = g->load();
                    c.check("loaded");
                }
            };
            s.after = [g](bool, long) {
                auto h = g->lock();  // completes only if the aborted call released its lock
                Win w(*h, true);
                h->check("after throw");
            };
            s.partner = [g] {
                for (int i = 0; i < 2; i++) {
                    auto h = g->lock();
                    Win w(*h, true);
                    h->check("partner");
                    vrf::user_point();
                }
            };
            s.verify = [g, idx, name = s.name](bool threw, long) {
                auto h = g->lock();
                h->check("final");
                uint32_t v = h->value();
                uint32_t want = (idx == 7 || threw) ? 1u : 5u;
                if (v != want) vio("oracle:object_state_wrong_after_throw", name, std::to_string(v));
            };
            break;
        }
        case 8:
        case 9:
        case 10:
        case 11: {  // atomic_guarded store / exchange / compare_exchange (success and failure paths)
            // payload: a move constructor that takes the data away, and a (throwing, strong-guarantee) copy assignment that
            // also serves rvalues - there is no move assignment. Assigning from a temporary must leave the register intact
            // when the assignment throws; moving the register's value out first and assigning afterwards would not.
            struct CACell: Cell {
                CACell() = default;
                explicit CACell(bool e): Cell(e) {}
                CACell(const Cell& c): Cell(c) {}  // NOLINT
                CACell(const CACell&) = default;
                CACell(CACell&&) = default;
                CACell& operator=(const CACell&) = default;
            };
            auto ag = std::make_shared<atomic_guarded<CACell, vrf::mutex_t>>(false);
            ag->store(CACell(vrf::make_value(1)));
            auto val = std::make_shared<CACell>(vrf::make_value(5));
            static const char* nm[] = {"atomic_guarded::store", "atomic_guarded::exchange", "atomic_guarded::compare_exchange (equal)", "atomic_guarded::compare_exchange (different)"};
            s.name = nm[idx - 8];
            s.mask = M_VALUE;
            s.thrower = [ag, val, idx] {
                if (idx == 8) ag->store(*val);
                else if (idx == 9) {
                    CACell old = ag->exchange(*val);
                    old.check("exchanged");
                } else {
                    CACell expected;
                    {
                        uint32_t m = vrf::ctx().throw_mask;  // building the argument is not part of the operation under test
                        vrf::ctx().throw_mask = 0;
                        expected.set_raw(idx == 10 ? 1u : 3u);
                        vrf::ctx().throw_mask = m;
                    }
                    (void)ag->compare_exchange(expected, *val);
                }
            };
            s.after = [ag, name = s.name](bool, long) {
                if (vrf::held_count() != 0) vio("oracle:lock_not_released_after_throw", name);
                CACell c = ag->load();
                c.check("after throw");
            };
            s.partner = [ag] {
                for (int i = 0; i < 2; i++) {
                    CACell c = ag->load();
                    c.check("partner load");
                    if (c.value() != 1 && c.value() != 5) vrf::violation("oracle:object_state_wrong_after_throw", std::to_string(c.value()));
                }
            };
            s.verify = [ag, idx, name = s.name](bool threw, long) {
                CACell c = ag->load();
                c.check("final");
                uint32_t v = c.value();
                bool ok = threw ? (v == 1 || v == 5) : (idx == 11 ? v == 1 : v == 5);
                if (!ok) vio("oracle:object_state_wrong_after_throw", name, std::to_string(v));
            };
            break;
        }
        case 12: {  // cow_guarded::lock(): the deep copy throws
            auto cow = std::make_shared<cow_guarded<Cell, vrf::mutex_t>>(false);
            s.name = "cow_guarded::lock (copy throws)";
            s.mask = 1u << S_COPY;
            s.thrower = [cow] {
                auto h = cow->lock();
                Win w(*h, true);
                h->append_raw(5);
            };
            s.after = [cow, name = s.name](bool, long) {
                if (vrf::held_count() != 0) vio("oracle:lock_not_released_after_throw", name);
                // a later writer must get through (writer mutex free, no reader registration leaked inside the left-right core)
                auto h = cow->lock();
                {
                    Win w(*h, true);
                    h->append_raw(6);
                }
                h.reset();
            };
            s.partner = [cow] {
                auto sp = cow->lock_shared();
                sp->check("partner snapshot");
                auto h = cow->lock();
                {
                    Win w(*h, true);
                    h->append_raw(99);
                }
                h.reset();
            };
            s.verify = [cow, concurrent, name = s.name](bool threw, long) {
                auto sp = cow->lock_shared();
                auto v = sp->log();
                if (has(v, 5) == threw || !has(v, 6) || (concurrent && !has(v, 99))) vio("oracle:object_state_wrong_after_throw", name, vrf::jnums(v));
            };
            break;
        }
        case 13: {  // deferred_guarded direct path
            auto dg = std::make_shared<deferred_guarded<Cell, vrf::shared_timed_mutex_t>>(false);
            auto fut = std::make_shared<std::future<int>>();
            auto futv = std::make_shared<std::future<void>>();  // modify_async with a functor returning void
            auto detach_caught = std::make_shared<int>(0);
            auto threw_id = std::make_shared<std::atomic<uint32_t>>(0);
            s.name = "deferred_guarded direct path (modify_detach, modify_async)";
            s.mask = M_FUNCTOR;
            s.expect_propagate = false;  // judged inside: detach propagates, async captures
            auto body = [threw_id](Cell& c, uint32_t id) {
                Win w(c, true);
                try {
                    vrf::maybe_throw(S_FUNCTOR);
                }
                catch (...) {
                    threw_id->store(id);
                    throw;
                }
                c.append_raw(id);
            };
            s.thrower = [dg, fut, futv, detach_caught, body] {
                try {
                    dg->modify_detach([body](Cell& c) { body(c, 5); });
                }
                catch (const Injected&) {
                    *detach_caught = 1;
                }
                *fut = dg->modify_async([body](Cell& c) {
                    body(c, 6);
                    return 6;
                });
                *futv = dg->modify_async([body](Cell& c) { body(c, 7); });
            };
            s.after = [dg, name = s.name](bool, long) {
                if (vrf::held_count() != 0) vio("oracle:lock_not_released_after_throw", name);
                auto h = dg->lock_shared();
                Win w(*h, false);
                h->check("after throw");
            };
            s.verify = [dg, fut, futv, detach_caught, concurrent, threw_id, name = s.name](bool threw, long) {
                long k = threw_id->load() == 0 ? 0 : static_cast<long>(threw_id->load()) - 4;  // which functor threw (if any)
                threw = threw && k != 0;
                std::vector<uint32_t> v;
                {
                    auto h = dg->lock_shared();
                    v = h->log();
                }
                if (!vrf::is_ready(*fut)) vio("oracle:async_future_not_ready_after_drain", name);
                bool fut_exc = false;
                try {
                    (void)fut->get();
                }
                catch (const Injected&) {
                    fut_exc = true;
                }
                if (!vrf::is_ready(*futv)) vio("oracle:async_future_not_ready_after_drain", name, "\"void functor\"");
                bool futv_exc = false;
                try {
                    futv->get();
                }
                catch (const Injected&) {
                    futv_exc = true;
                }
                if (!concurrent) {
                    // sequential: all calls took the direct path
                    if ((threw && k == 1) != (*detach_caught == 1)) vio("oracle:exception_not_propagated_as_documented", name, "\"modify_detach direct path\"");
                    if ((threw && k == 2) != fut_exc) vio("oracle:exception_not_captured_as_documented", name, "\"modify_async\"");
                    if ((threw && k == 3) != futv_exc) vio("oracle:exception_not_captured_as_documented", name, "\"modify_async (void functor)\"");
                }
                if (has(v, 5) == (threw && k == 1) || has(v, 6) == (threw && k == 2) || has(v, 7) == (threw && k == 3))
                    vio("oracle:object_state_wrong_after_throw", name, vrf::jnums(v));
            };
            s.partner = [dg] {
                for (int i = 0; i < 2; i++) {
                    auto h = dg->lock_shared();
                    Win w(*h, false);
                    h->check("partner");
                    vrf::hyield();
                }
            };
            break;
        }
        case 14: {  // deferred_guarded queued path: tasks throw while being drained
            auto dg = std::make_shared<deferred_guarded<Cell, vrf::shared_timed_mutex_t>>(false);
            auto fut = std::make_shared<std::future<int>>();
            auto threw_id = std::make_shared<std::atomic<uint32_t>>(0);
            auto body = [threw_id](Cell& c, uint32_t id) {
                Win w(c, true);
                try {
                    vrf::maybe_throw(S_FUNCTOR);
                }
                catch (...) {
                    threw_id->store(id);
                    throw;
                }
                c.append_raw(id);
            };
            s.name = "deferred_guarded queued path (drain runs throwing tasks)";
            s.mask = M_FUNCTOR;
            s.expect_propagate = false;  // captured by the packaged tasks
            s.thrower = [dg, fut, body] {
                {
                    auto h = dg->lock_shared();  // forces the queued path
                    dg->modify_detach([body](Cell& c) { body(c, 5); });
                    *fut = dg->modify_async([body](Cell& c) {
                        body(c, 6);
                        return 6;
                    });
                    dg->modify_detach([body](Cell& c) { body(c, 7); });
                }
                auto h2 = dg->lock_shared();  // drains: a throwing task must not stop the others nor escape
                Win w(*h2, false);
                h2->check("after drain");
            };
            s.after = [dg, name = s.name](bool, long) {
                if (vrf::held_count() != 0) vio("oracle:lock_not_released_after_throw", name);
            };
            s.verify = [dg, fut, threw_id, name = s.name](bool threw, long) {
                long k = threw_id->load() == 0 ? 0 : static_cast<long>(threw_id->load()) - 4;  // which task threw (if any)
                threw = threw && k != 0;
                std::vector<uint32_t> v;
                {
                    auto h = dg->lock_shared();
                    v = h->log();
                }
                if (!vrf::is_ready(*fut)) vio("oracle:async_future_not_ready_after_drain", name);
                bool fut_exc = false;
                try {
                    (void)fut->get();
                }
                catch (const Injected&) {
                    fut_exc = true;
                }
                if ((threw && k == 2) != fut_exc) vio("oracle:exception_not_captured_as_documented", name);
                for (uint32_t id = 5; id <= 7; id++)
                    if (has(v, id) == (threw && k == static_cast<long>(id - 4))) vio("oracle:object_state_wrong_after_throw", name, vrf::jnums(v));
            };
            s.partner = [dg] {
                for (int i = 0; i < 2; i++) {
                    auto h = dg->try_lock_shared();
                    if (h) {
                        Win w(*h, false);
                        h->check("partner");
                    }
                    vrf::hyield();
                }
            };
            break;
        }
        case 15: {  // SearchableObjectHolder predicates
            auto soh = std::make_shared<SearchableObjectHolder<Cell, int>>();
            for (uint32_t i = 1; i <= 3; i++) {
                auto o = std::make_shared<Cell>();
                o->set_raw(i);
                soh->addObject(std::string(1, static_cast<char>('a' + i)), o, static_cast<int>(i % 2));
            }
            auto removed = std::make_shared<int>(0);
            s.name = "SearchableObjectHolder predicates (find, find+type, remove)";
            s.mask = 1u << S_PRED;
            s.thrower = [soh, removed] {
                auto pred3 = [](const std::shared_ptr<Cell>& c) {
                    vrf::maybe_throw(S_PRED);
                    return c->value() == 3;
                };
                auto f = soh->findObject(pred3);
                if (!f || f->value() != 3) vrf::violation("oracle:wrong_result", "\"findObject(pred)\"");
                auto f2 = soh->findObject(pred3, 1);
                if (!f2 || f2->value() != 3) vrf::violation("oracle:wrong_result", "\"findObject(pred,type)\"");
                if (!soh->removeObject(pred3)) vrf::violation("oracle:wrong_result", "\"removeObject(pred)\"");
                *removed = 1;
            };
            s.after = [soh, name = s.name](bool, long) {
                if (vrf::held_count() != 0) vio("oracle:lock_not_released_after_throw", name);
                (void)soh->empty();  // would self-deadlock on a leaked lock
            };
            s.partner = [soh] {
                auto o = std::make_shared<Cell>();
                o->set_raw(9);
                soh->addObject("z", o);
                auto f = soh->findObject(std::string("z"));
                if (!f) vrf::violation("oracle:wrong_result", "\"partner findObject\"");
                soh->removeObject(std::string("z"));
            };
            s.verify = [soh, removed, name = s.name](bool, long) {
                size_t n = soh->getObjects().size();
                size_t want = *removed ? 2u : 3u;  // an aborted call changed nothing
                if (n != want) vio("oracle:object_state_wrong_after_throw", name, std::to_string(n));
                for (char ch : {'b', 'c', 'd'}) soh->removeObject(std::string(1, ch));
            };
            break;
        }
        default: {  // 16: DelayedDestructor callbacks
            struct E {
                std::atomic<int>* destroyed;
                int id;
                ~E()
                {
                    // also after a throwing callback the reaped objects die outside the container's lock
                    if (vrf::held_count() != 0) vrf::violation("oracle:element_destructor_ran_under_a_lock", "{\"after\":\"a throwing callback\"}");
                    destroyed[id].fetch_add(1);
                }
            };
            auto destroyed = std::shared_ptr<std::atomic<int>>(new std::atomic<int>[8], [](std::atomic<int>* p) { delete[] p; });
            for (int i = 0; i < 8; i++) destroyed.get()[i].store(0);
            auto dd = std::make_shared<DelayedDestructor<E>>([](std::shared_ptr<E>& p) {
                if (vrf::held_count() != 0) vrf::violation("oracle:callback_ran_under_a_lock", "{}");
                vrf::maybe_throw(S_CALLBACK);
                (void)p;
            });
            s.name = "DelayedDestructor callback";
            s.mask = 1u << S_CALLBACK;
            s.expect_propagate = false;  // destroyObjects is noexcept and swallows
            s.thrower = [dd, destroyed] {
                for (int i = 0; i < 4; i++) dd->addObjectsToBeDestroyed(std::shared_ptr<E>(new E{destroyed.get(), i}));
                (void)dd->destroyObjects();
            };
            s.after = [dd, destroyed, name = s.name](bool, long) {
                if (vrf::held_count() != 0) vio("oracle:lock_not_released_after_throw", name);
                // container still usable
                dd->addObjectsToBeDestroyed(std::shared_ptr<E>(new E{destroyed.get(), 5}));
                (void)dd->destroyObjects();
                (void)dd->size();
            };
            s.partner = [dd, destroyed] {
                // hands objects over while the other thread's callback throws (and while what handles that throw runs)
                dd->addObjectsToBeDestroyed(std::shared_ptr<E>(new E{destroyed.get(), 6}));
                (void)dd->size();
                vrf::hyield();
                dd->addObjectsToBeDestroyed(std::shared_ptr<E>(new E{destroyed.get(), 7}));
                (void)dd->destroyObjects();
            };
            s.verify = [dd, destroyed, concurrent, name = s.name](bool, long) {
                (void)dd->destroyObjects();
                for (int i : {0, 1, 2, 3, 5, 6, 7}) {
                    if (i >= 6 && !concurrent) continue;
                    int d = destroyed.get()[i].load();
                    if (d != 1) vio("oracle:element_not_destroyed_exactly_once_after_throwing_callback", name, "{\"id\":" + std::to_string(i) + ",\"destroyed\":" + std::to_string(d) + "}");
                }
            };
            break;
        }
        case 17: {  // lr_guarded::modify, double fault: the functor throws and the copy that rolls back / completes throws too.
            // No statement covers the value then; what remains is "releases the lock, stays usable": both copies are
            // still live objects (readers and later functors get a live object, nothing is destroyed twice)
            auto lr = std::make_shared<lr_guarded<Cell, vrf::mutex_t>>(false);
            lr->modify([](Cell& c) {
                Win w(c, true);
                c.append_raw(1);
            });
            s.name = "lr_guarded::modify functor, then the restoring copy (double fault)";
            s.mask = M_FUNCTOR | M_COPYASSIGN;
            s.twice = true;
            s.thrower = [lr] {
                lr->modify([](Cell& c) {
                    Win w(c, true);
                    vrf::maybe_throw(S_FUNCTOR);
                    c.append_raw(5);
                });
            };
            s.after = [lr](bool, long) {
                for (int i = 0; i < 2; i++) {  // two modifications: each side is the first write location once
                    (void)lr_read(*lr);
                    lr->modify([](Cell& c) {
                        Win w(c, true);
                        c.check("noop after a double fault");
                    });
                }
                (void)lr_read(*lr);
            };
            s.partner = [lr] {
                for (int i = 0; i < 2; i++) {
                    (void)lr_read(*lr);
                    vrf::hyield();
                }
                lr->modify([](Cell& c) {
                    Win w(c, true);
                    c.check("partner after a double fault");
                });
                (void)lr_read(*lr);
            };
            s.verify = [lr](bool, long) { (void)lr_read(*lr); };
            break;
        }
    }
    return s;
}

struct RunOut {
    long K = 0;
    bool threw = false;
    uint64_t sig = 0;
};

static RunOut run_scenario(long ridx, int idx, long k, bool concurrent, bool std_flavour = false)
{
    vrf::Round R(ridx);
    Scenario s = make_scenario(idx, concurrent);
    R.program("{\"scenario\":" + vrf::jstr(s.name) + ",\"throw_at_invocation\":" + std::to_string(k) + ",\"exception_type\":\"" + (std_flavour ? "derived from std::exception" : "plain struct") + "\",\"concurrent_partner\":" + (concurrent ? "1" : "0") + "}");
    RunOut out;
    std::atomic<int> caught{0};
    R.spawn([&] {
        vrf::fault_arm(s.mask, k, std_flavour, s.twice);
        try {
            s.thrower();
        }
        catch (const Injected&) {
            caught.store(1);
        }
        out.K = vrf::fault_disarm();
        out.threw = vrf::fault_throws() > 0;
        if (vrf::held_count() != 0) vio("oracle:lock_not_released_after_throw", s.name, "{\"held\":" + std::to_string(vrf::held_count()) + "}");
        if (out.threw && s.expect_propagate && !caught.load()) vio("oracle:exception_not_propagated_as_documented", s.name);
        if (!out.threw && caught.load()) vio("oracle:exception_without_injection", s.name);
        if (s.after) s.after(out.threw, k);
    });
    if (concurrent && s.partner) R.spawn([&] { s.partner(); });
    R.run();
    if (vrf::global_held_count() != 0) vio("oracle:lock_leaked_at_quiescence", s.name);
    vrf::run_checked(ridx, [&] {
        if (s.verify) s.verify(out.threw, k);
    });
    vrf::check_shadow();
    out.sig = R.sched_sig;
    return out;
}

int main(int argc, char** argv)
{
    vrf::init(argc, argv, "C20");
    bool concurrent = vrf::cfg.mode == "conc";
    long reps = concurrent ? vrf::cfg.rounds : 2;  // every throw point is injected with both exception flavours
    long ridx = 0;
    uint64_t throw_points = 0, throws = 0;
    std::string ks = "{";
    for (int idx = 0; idx < NSCEN; idx++) {
        RunOut dry;
        if (vrf::want_round(ridx)) dry = run_scenario(ridx, idx, 0, false);  // K is a property of the scenario: counted without the partner
        ridx++;
        long K = dry.K;
        if (vrf::cfg.only_round >= 0 && K == 0) K = 12;
        if (K <= 0 && vrf::cfg.only_round < 0) vrf::harness_error("scenario reached no throw site");
        ks += std::string(idx ? "," : "") + vrf::jstr(make_scenario(idx, false).name) + ":" + std::to_string(K);
        for (long k = 1; k <= K; k++) {
            throw_points++;
            for (long rep = 0; rep < reps; rep++) {
                if (vrf::want_round(ridx)) {
                    RunOut o = run_scenario(ridx, idx, k, concurrent, (rep % 2) == 1);
                    if (o.threw) throws++;
                    vrf::note(vrf::mixhash(vrf::mixhash(static_cast<uint64_t>(idx) * 100 + static_cast<uint64_t>(k) + (rep % 2) * 50000, o.sig), o.threw), o.threw);
                }
                ridx++;
            }
        }
    }
    ks += "}";
    vrf::count("throw_points_enumerated", throw_points);
    vrf::count("rounds_with_an_injected_throw", throws);
    vrf::sample("{\"throw_sites_reached_per_scenario\":" + ks + "}");
    vrf::threshold("rounds_with_an_injected_throw", throws, vrf::cfg.only_round >= 0 ? 0 : 20);
    vrf::finish();
}
