// Shared workload for the mutex-based wrappers (C01, C02): generated client programs on one
// wrapper object, every operation opening access windows on the wrapped Cell.
#pragma once
#include "all_headers.hpp"
#include "vrf.hpp"

namespace gc {
using namespace gmlc::libguarded;
using vrf::Cell;
using vrf::Win;

enum Family { F_GUARDED, F_GUARDED_OPT, F_SHARED, F_SHARED_OPT, F_ORDERED, F_DEFERRED, NFAM };
static const char* const FAMN[] = {"guarded", "guarded_opt", "shared_guarded", "shared_guarded_opt", "ordered_guarded", "deferred_guarded"};
static const char* const MUTN[] = {"mutex", "timed_mutex", "shared_mutex", "shared_timed_mutex"};

enum Op {
    LOCK, TRY, TRY_FOR, TRY_UNTIL,                      // exclusive handles
    LOAD, STORE, ASSIGN, MODIFY, MODIFY_RET,            // whole-object operations
    LOCK_SH, CONST_LOCK, TRY_SH, TRY_SH_FOR, TRY_SH_UNTIL, READ, READ_RET,   // shared side
    DETACH, ASYNC,                                      // deferred_guarded
    CAST,                                               // operator T() (ordered_guarded: the only wrapper where it compiles besides atomic_guarded)
    NOP
};
static const char* const OPN[] = {"lock", "try_lock", "try_lock_for", "try_lock_until", "load", "store", "operator=", "modify", "modify(ret)",
                                  "lock_shared", "const lock()", "try_lock_shared", "try_lock_shared_for", "try_lock_shared_until", "read",
                                  "read(ret)", "modify_detach", "modify_async", "operator T()"};
inline bool is_shared_op(int op) { return op >= LOCK_SH && op <= READ_RET; }
inline bool is_excl_handle_op(int op) { return op <= TRY_UNTIL; }

template<class M>
struct MTraits;
template<>
struct MTraits<vrf::mutex_t> {
    static constexpr int id = 0;
    static constexpr bool timed = false, shared = false;
};
template<>
struct MTraits<vrf::timed_mutex_t> {
    static constexpr int id = 1;
    static constexpr bool timed = true, shared = false;
};
template<>
struct MTraits<vrf::shared_mutex_t> {
    static constexpr int id = 2;
    static constexpr bool timed = false, shared = true;
};
template<>
struct MTraits<vrf::shared_timed_mutex_t> {
    static constexpr int id = 3;
    static constexpr bool timed = true, shared = true;
};

inline bool supported(int fam, bool timed, int op)
{
    bool t = (op == TRY_FOR || op == TRY_UNTIL || op == TRY_SH_FOR || op == TRY_SH_UNTIL);
    if (t && !timed) return false;
    switch (fam) {
        case F_GUARDED:
        case F_GUARDED_OPT: return op <= ASSIGN;
        case F_SHARED:
        case F_SHARED_OPT: return op <= TRY_UNTIL || (op >= LOCK_SH && op <= TRY_SH_UNTIL);
        case F_ORDERED: return (op >= LOAD && op <= MODIFY_RET) || (op >= LOCK_SH && op <= READ_RET && op != CONST_LOCK) || op == CAST;
        case F_DEFERRED: return op == LOAD || (op >= LOCK_SH && op <= TRY_SH_UNTIL && op != CONST_LOCK) || op == DETACH || op == ASYNC;
    }
    return false;
}

struct POp {
    int op;
    uint32_t id;
    int hold;     // user points / yields while inside
    int dur_us;   // for timed forms
    bool explicit_unlock = false;  // handle operations: call unlock() on the returned handle (also on a null one) before it dies
    bool during_unwind = false;    // the whole operation runs in a destructor while an unrelated exception propagates
    bool functor_throws = false;   // modify / read: the functor throws before touching the object; the caller catches and carries on
};
struct HarnessUnwind {};
struct FunctorThrow {};
template<class F>
struct RunInDtor {
    F f;
    ~RunInDtor() { f(); }
};
inline std::string pop_json(const POp& p)
{
    return std::string("{\"op\":\"") + OPN[p.op] + "\",\"id\":" + std::to_string(p.id) + ",\"hold\":" + std::to_string(p.hold) + ",\"us\":" +
        std::to_string(p.dur_us) + (p.explicit_unlock ? ",\"unlock()\":1" : "") + (p.during_unwind ? ",\"during_unwind\":1" : "") + (p.functor_throws ? ",\"functor_throws\":1" : "") + "}";
}

struct OpResult {
    int op;
    uint32_t id;
    bool success;              // handle non-null / operation performed
    bool wrote;                // performed an increment (append) on the object
    bool stored;               // overwrote the object (store / =)
    uint64_t call, ret;
    std::vector<uint32_t> seen;  // log observed (reads)
    bool have_seen;
};

struct RoundState {
    std::atomic<int> readers_inside{0};
    std::atomic<int> max_readers{0};
    std::vector<OpResult> results[vrf::MAXT];
    std::atomic<uint64_t> functor_runs[64];
    RoundState()
    {
        for (auto& f : functor_runs) f.store(0);
    }
};

inline void hold_points(int n)
{
    for (int i = 0; i < n; i++) vrf::user_point();
}

// body executed with exclusive access to c
inline void excl_body(Cell& c, const POp& p, OpResult& res)
{
    Win w(c, true);
    vrf::tl_vt_label = static_cast<int>(p.id);
    c.check("exclusive access");
    hold_points(p.hold);
    c.append_raw(p.id);
    hold_points(p.hold / 2);
    c.check("exclusive access after write");
    res.wrote = true;
}
inline void shared_body(const Cell& c, const POp& p, OpResult& res, RoundState& rs)
{
    Win w(c, false);
    vrf::tl_vt_label = static_cast<int>(p.id);
    int in = rs.readers_inside.fetch_add(1, std::memory_order_relaxed) + 1;
    int mx = rs.max_readers.load(std::memory_order_relaxed);
    while (in > mx && !rs.max_readers.compare_exchange_weak(mx, in, std::memory_order_relaxed)) {}
    c.check("shared access");
    res.seen = c.log();
    res.have_seen = true;
    hold_points(p.hold);
    c.check("shared access (2)");
    if (c.log() != res.seen) vrf::violation("oracle:object_changed_under_shared_handle", "{\"op\":" + pop_json(p) + "}");
    rs.readers_inside.fetch_sub(1, std::memory_order_relaxed);
}

// functors that can be applied to a mutable and to a const object: modify() must reach the first form (under the exclusive
// lock), read() the second one (the object it hands out is const)
struct DualVoid {
    const POp* p;
    OpResult* res;
    RoundState* rs;
    bool reading = false;
    void operator()(Cell& c) const
    {
        if (reading) vrf::violation("oracle:read_handed_out_a_mutable_object", "{}");
        excl_body(c, *p, *res);
    }
    void operator()(const Cell& c) const
    {
        if (!reading) vrf::violation("oracle:modify_applied_the_callable_to_a_const_object", "{}");
        shared_body(c, *p, *res, *rs);
    }
};
struct DualRet {
    const POp* p;
    OpResult* res;
    RoundState* rs;
    bool reading = false;
    int operator()(Cell& c) const
    {
        if (reading) vrf::violation("oracle:read_handed_out_a_mutable_object", "{}");
        excl_body(c, *p, *res);
        return static_cast<int>(c.n);
    }
    int operator()(const Cell& c) const
    {
        if (!reading) vrf::violation("oracle:modify_applied_the_callable_to_a_const_object", "{}");
        shared_body(c, *p, *res, *rs);
        return static_cast<int>(c.n);
    }
};

template<int FAM, class W, class M>
void do_op(W& w, const POp& p, int tid, RoundState& rs, std::vector<std::future<int>>* futs = nullptr)
{
    OpResult res{p.op, p.id, false, false, false, 0, 0, {}, false};
    auto dur = std::chrono::microseconds(p.dur_us);
    res.call = vrf::now();
    (void)w;
    (void)dur;
    (void)futs;
    if constexpr (FAM == F_GUARDED || FAM == F_GUARDED_OPT || FAM == F_SHARED || FAM == F_SHARED_OPT) {
        const size_t held_before = vrf::held_count();
        auto use = [&](auto&& h) {
            if (h) {
                res.success = true;
                excl_body(*h, p, res);
            } else if (vrf::held_count() != held_before) {
                // a failed attempt leaves nothing locked - not even until the null handle dies (nobody could acquire meanwhile)
                vrf::violation("oracle:null_handle_holds_the_lock", "{\"op\":" + pop_json(p) + "}");
            }
            if (p.explicit_unlock) {
                h.unlock();  // legal on any handle, including one whose try-acquisition failed
                if (h) vrf::violation("oracle:handle_not_null_after_unlock", "{\"op\":" + pop_json(p) + "}");
            }
        };
        switch (p.op) {
            case LOCK: use(w.lock()); break;
            case TRY: use(w.try_lock()); break;
            default: break;
        }
        if constexpr (MTraits<M>::timed) {
            if (p.op == TRY_FOR) use(w.try_lock_for(dur));
            if (p.op == TRY_UNTIL) {  // the deadline may be given on any clock
                if (p.id % 2) use(w.try_lock_until(std::chrono::system_clock::now() + dur));
                else use(w.try_lock_until(std::chrono::steady_clock::now() + dur));
            }
        }
    }
    if constexpr (FAM == F_GUARDED || FAM == F_GUARDED_OPT) {
        if (p.op == LOAD) {
            Cell c = w.load();
            c.check("load result");
            res.seen = c.log();
            res.have_seen = true;
            res.success = true;
        }
    }
    if constexpr (FAM == F_GUARDED || FAM == F_GUARDED_OPT || FAM == F_ORDERED) {
        // the new value is a temporary, or (odd ids) a named lvalue that must still hold its value afterwards
        if (p.op == STORE) {
            if (p.id % 2) {
                Cell v = vrf::make_value(p.id);
                w.store(v);
                vrf::still_holds(v, p.id, "store");
            } else w.store(vrf::make_value(p.id));
            res.success = res.stored = true;
        }
        if (p.op == ASSIGN) {
            if (p.id % 2) {
                Cell v = vrf::make_value(p.id);
                w = v;
                vrf::still_holds(v, p.id, "operator=");
            } else w = vrf::make_value(p.id);
            res.success = res.stored = true;
        }
    }
    if constexpr (FAM == F_ORDERED) {
        // a functor that throws leaves the wrapper as it was - for everybody, the thread that caught the exception included
        if (p.functor_throws && (p.op == MODIFY || p.op == MODIFY_RET || p.op == READ || p.op == READ_RET)) {
            try {
                if (p.op == MODIFY) w.modify([](Cell&) { throw FunctorThrow{}; });
                else if (p.op == MODIFY_RET) (void)w.modify([](Cell&) -> int { throw FunctorThrow{}; });
                else if (p.op == READ) w.read([](const Cell&) { throw FunctorThrow{}; });
                else (void)w.read([](const Cell&) -> int { throw FunctorThrow{}; });
                vrf::violation("oracle:functor_exception_not_propagated", "{\"op\":" + pop_json(p) + "}");
            }
            catch (const FunctorThrow&) {
            }
            res.ret = vrf::now();
            rs.results[tid].push_back(std::move(res));
            return;
        }
        // the callable reaches the wrapper as a named lambda, as an rvalue of a value-category-sensitive callable, or as a
        // functor that accepts both T& and const T& (modify must use the first form, read the second)
        if (p.op == MODIFY) {
            auto fn = [&](Cell& c) { excl_body(c, p, res); };
            if (p.id % 4 == 2) w.modify(DualVoid{&p, &res, &rs});
            else if (p.id % 2) w.modify(vrf::one_shot(fn));
            else w.modify(fn);
            res.success = true;
        }
        if (p.op == MODIFY_RET) {
            auto fn = [&](Cell& c) {
                excl_body(c, p, res);
                return static_cast<int>(c.n);
            };
            if (p.id % 8 == 4) {
                // a callable whose result is a reference to the object: whatever the wrapper returns, the library itself does
                // not touch the object once the lock is gone (the result is not used here)
                auto fnr = [&](Cell& c) -> Cell& {
                    excl_body(c, p, res);
                    return c;
                };
                auto&& r = w.modify(fnr);
                (void)r;
            } else {
                int n = (p.id % 4 == 2) ? w.modify(DualRet{&p, &res, &rs}) : (p.id % 2) ? w.modify(vrf::one_shot(fn)) : w.modify(fn);
                (void)n;
            }
            res.success = true;
        }
        if (p.op == READ) {
            auto fn = [&](const Cell& c) { shared_body(c, p, res, rs); };
            if (p.id % 4 == 2) w.read(DualVoid{&p, &res, &rs, true});
            else if (p.id % 2) w.read(vrf::one_shot(fn));
            else w.read(fn);
            res.success = true;
        }
        if (p.op == READ_RET) {
            auto fn = [&](const Cell& c) {
                shared_body(c, p, res, rs);
                return static_cast<int>(c.n);
            };
            if (p.id % 8 == 4) {
                auto fnr = [&](const Cell& c) -> const Cell& {
                    shared_body(c, p, res, rs);
                    return c;
                };
                auto&& r = w.read(fnr);
                (void)r;
            } else {
                int n = (p.id % 4 == 2) ? w.read(DualRet{&p, &res, &rs, true}) : (p.id % 2) ? w.read(vrf::one_shot(fn)) : w.read(fn);
                (void)n;
            }
            res.success = true;
        }
    }
    if constexpr (FAM == F_ORDERED) {
        if (p.op == CAST) {
            Cell c = static_cast<Cell>(static_cast<const W&>(w));
            c.check("converted value");
            res.seen = c.log();
            res.have_seen = true;
            res.success = true;
        }
    }
    if constexpr (FAM == F_ORDERED || FAM == F_DEFERRED) {
        if (p.op == LOAD) {
            Cell c = w.load();
            c.check("load result");
            res.seen = c.log();
            res.have_seen = true;
            res.success = true;
        }
    }
    if constexpr (FAM == F_SHARED || FAM == F_SHARED_OPT || FAM == F_ORDERED || FAM == F_DEFERRED) {
        const size_t held_before_sh = vrf::held_count();
        auto use = [&](auto&& h) {
            if (h) {
                res.success = true;
                shared_body(*h, p, res, rs);
            } else if (vrf::held_count() != held_before_sh) {
                vrf::violation("oracle:null_handle_holds_the_lock", "{\"op\":" + pop_json(p) + "}");
            }
            if (p.explicit_unlock) {
                h.unlock();
                if (h) vrf::violation("oracle:handle_not_null_after_unlock", "{\"op\":" + pop_json(p) + "}");
            }
        };
        switch (p.op) {
            case LOCK_SH: use(w.lock_shared()); break;
            case TRY_SH: use(w.try_lock_shared()); break;
            default: break;
        }
        if constexpr (FAM == F_SHARED || FAM == F_SHARED_OPT) {
            if (p.op == CONST_LOCK) use(static_cast<const W&>(w).lock());
        }
        if constexpr (MTraits<M>::timed) {
            if (p.op == TRY_SH_FOR) use(w.try_lock_shared_for(dur));
            if (p.op == TRY_SH_UNTIL) {
                if (p.id % 2) use(w.try_lock_shared_until(std::chrono::system_clock::now() + dur));
                else use(w.try_lock_shared_until(std::chrono::steady_clock::now() + dur));
            }
        }
    }
    if constexpr (FAM == F_DEFERRED) {
        // the functor may run later on another thread: it records into shared atomics only
        if (p.op == DETACH) {
            POp pc = p;
            RoundState* rsp = &rs;
            auto fn = [pc, rsp](Cell& c) {
                OpResult dummy{};
                excl_body(c, pc, dummy);
                rsp->functor_runs[pc.id % 64].fetch_add(1, std::memory_order_relaxed);
            };
            if (p.id % 4 == 2) {  // a named callable given as an lvalue stays usable
                auto named = vrf::one_shot(fn);
                w.modify_detach(named);
                vrf::still_usable(named);
            } else if (p.id % 2) w.modify_detach(vrf::one_shot(fn));
            else w.modify_detach(fn);
            res.success = true;
            res.wrote = true;
        }
        if (p.op == ASYNC) {
            POp pc = p;
            RoundState* rsp = &rs;
            auto fn = [pc, rsp](Cell& c) {
                OpResult dummy{};
                excl_body(c, pc, dummy);
                rsp->functor_runs[pc.id % 64].fetch_add(1, std::memory_order_relaxed);
                return static_cast<int>(c.n);
            };
            auto fut = (p.id % 2) ? w.modify_async(vrf::one_shot(fn)) : w.modify_async(fn);
            if (futs) futs->push_back(std::move(fut));
            res.success = true;
            res.wrote = true;
        }
    }
    res.ret = vrf::now();
    rs.results[tid].push_back(std::move(res));
}

struct Program {
    int fam, mut;
    std::vector<std::vector<POp>> scripts;
    std::string json() const
    {
        std::string s = std::string("{\"wrapper\":\"") + FAMN[fam] + "\",\"mutex\":\"" + MUTN[mut] + "\",\"threads\":[";
        for (size_t t = 0; t < scripts.size(); t++) {
            if (t) s += ",";
            s += vrf::jarr(scripts[t].begin(), scripts[t].end(), pop_json);
        }
        return s + "]}";
    }
    uint64_t hash() const
    {
        uint64_t h = static_cast<uint64_t>(fam * 8 + mut + 1);
        for (auto& sc : scripts) {
            h = vrf::mixhash(h, 0xF00D);
            for (auto& p : sc) h = vrf::mixhash(h, static_cast<uint64_t>(p.op) * 64 + static_cast<uint64_t>(p.hold) * 7 + static_cast<uint64_t>(p.dur_us));
        }
        return h;
    }
    bool has_store() const
    {
        for (auto& sc : scripts)
            for (auto& p : sc)
                if (p.op == STORE || p.op == ASSIGN) return true;
        return false;
    }
};

// allowed: bitmask over Op
inline Program gen_program(vrf::Rng& rng, int fam, int mut, uint32_t allowed, int max_threads = 4, int max_ops = 6)
{
    Program P;
    P.fam = fam;
    P.mut = mut;
    bool timed = (mut == 1 || mut == 3);
    std::vector<int> ops;
    for (int op = 0; op < NOP; op++)
        if ((allowed >> op & 1) && supported(fam, timed, op)) ops.push_back(op);
    if (ops.empty()) vrf::harness_error("no operation available for this combination");
    int nt = static_cast<int>(rng.range(2, max_threads));
    uint32_t id = 1;
    bool allow_store = rng.chance(25);
    static const int durs[] = {0, 20, 200, 5000, -50};  // negative: a duration below zero / a time point in the past
    for (int t = 0; t < nt; t++) {
        std::vector<POp> sc;
        int no = static_cast<int>(rng.range(2, max_ops));
        for (int i = 0; i < no; i++) {
            int op;
            for (;;) {
                op = ops[rng.below(ops.size())];
                if ((op == STORE || op == ASSIGN) && !allow_store) {
                    bool only_store = true;
                    for (int o : ops)
                        if (o != STORE && o != ASSIGN) only_store = false;
                    if (!only_store) continue;
                }
                break;
            }
            POp np{op, id++, static_cast<int>(rng.below(4)), durs[rng.below(5)], rng.chance(25), rng.chance(6)};
            np.functor_throws = !np.during_unwind && rng.chance(8);
            sc.push_back(np);
            if (id >= 28) break;
        }
        P.scripts.push_back(std::move(sc));
        if (id >= 28) break;
    }
    return P;
}

}  // namespace gc
