// one round of the C01/C02 workload on wrapper family FAM with mutex type M
#pragma once
#include "guard_common.hpp"

namespace gc {

template<int FAM, class M>
struct Make;
template<class M>
struct Make<F_GUARDED, M> {
    using W = guarded<Cell, M>;
    static W* make(bool excl) { return new W(excl); }
};
template<class M>
struct Make<F_GUARDED_OPT, M> {
    using W = guarded_opt<Cell, M>;
    static W* make(bool excl) { return new W(true, excl); }
};
template<class M>
struct Make<F_SHARED, M> {
    using W = shared_guarded<Cell, M>;
    static W* make(bool excl) { return new W(excl); }
};
template<class M>
struct Make<F_SHARED_OPT, M> {
    using W = shared_guarded_opt<Cell, M>;
    static W* make(bool excl) { return new W(true, excl); }
};
template<class M>
struct Make<F_ORDERED, M> {
    using W = ordered_guarded<Cell, M>;
    static W* make(bool excl) { return new W(excl); }
};
template<class M>
struct Make<F_DEFERRED, M> {
    using W = deferred_guarded<Cell, M>;
    static W* make(bool excl) { return new W(excl); }
};

template<int FAM, class W>
std::vector<uint32_t> final_log(W& w)
{
    if constexpr (FAM == F_ORDERED || FAM == F_DEFERRED) {
        auto h = w.lock_shared();
        h->check("final");
        return h->log();
    } else {
        auto h = w.lock();
        h->check("final");
        return h->log();
    }
}

struct RoundOut {
    bool contended = false;
    int max_readers = 0;
    uint64_t sched_sig = 0;
    uint64_t outcome_sig = 0;
};

// exclusive_contract: every two windows conflict (C01 wrappers used through exclusive operations only)
template<int FAM, class M>
RoundOut run_round(vrf::Round& R, const Program& P, bool exclusive_contract, bool rendezvous = false)
{
    using MK = Make<FAM, M>;
    using W = typename MK::W;
    std::unique_ptr<W> w(MK::make(exclusive_contract));
    RoundState rs;
    std::vector<std::future<int>> futs[vrf::MAXT];
    R.program(P.json());
    vrf::ThreadStats before = vrf::total_stats();
    std::atomic<int> rv_inside{0};
    if (rendezvous) {
        // two readers must be able to be inside together (shared-capable mutex, no writer around)
        if constexpr (FAM != F_GUARDED && FAM != F_GUARDED_OPT) {
            // every shared acquisition form must let two readers in together; the forms of the two readers are taken from the
            // (two-operation) program: LOCK_SH, CONST_LOCK, TRY_SH, TRY_SH_FOR/UNTIL, READ, READ_RET
            for (int t = 0; t < 2; t++) {
                R.spawn([&, t] {
                    int form = P.scripts[static_cast<size_t>(t)][0].op;
                    auto inside = [&](const Cell& c) {
                        Win win(c, false);
                        rv_inside.fetch_add(1, std::memory_order_relaxed);
                        vrf::spin_until([&] { return rv_inside.load(std::memory_order_relaxed) >= 2; });
                        c.check("rendezvous");
                    };
                    auto with_handle = [&](auto&& h) {
                        if (!h) vrf::violation("oracle:reader_blocked_merely_by_another_reader", std::string("{\"form\":\"") + OPN[form] + "\"}");
                        inside(*h);
                    };
                    auto dur = std::chrono::milliseconds(50);
                    (void)dur;
                    if constexpr (FAM == F_ORDERED) {
                        if (form == READ) {
                            w->read([&](const Cell& c) { inside(c); });
                            return;
                        }
                        if (form == READ_RET) {
                            (void)w->read([&](const Cell& c) {
                                inside(c);
                                return 1;
                            });
                            return;
                        }
                    }
                    if constexpr (FAM == F_SHARED || FAM == F_SHARED_OPT) {
                        if (form == CONST_LOCK) {
                            with_handle(static_cast<const W&>(*w).lock());
                            return;
                        }
                    }
                    if (form == TRY_SH) {
                        // the other reader may still be inside its own (blocking) acquisition only if a writer were around: none is
                        with_handle(w->try_lock_shared());
                        return;
                    }
                    if constexpr (MTraits<M>::timed) {
                        if (form == TRY_SH_FOR) {
                            with_handle(w->try_lock_shared_for(dur));
                            return;
                        }
                        if (form == TRY_SH_UNTIL) {
                            with_handle(w->try_lock_shared_until(std::chrono::steady_clock::now() + dur));
                            return;
                        }
                    }
                    with_handle(w->lock_shared());
                });
            }
        }
    } else {
        for (size_t t = 0; t < P.scripts.size(); t++) {
            R.spawn([&, t] {
                for (auto& p : P.scripts[t]) {
                    auto run = [&] { do_op<FAM, W, M>(*w, p, static_cast<int>(t), rs, &futs[t]); };
                    if (p.during_unwind) {
                        // locks taken and released by clean-up code during stack unwinding behave like any others
                        try {
                            RunInDtor<decltype(run)&> guard{run};
                            throw HarnessUnwind{};
                        }
                        catch (const HarnessUnwind&) {
                        }
                    } else run();
                }
            });
        }
    }
    R.run();
    RoundOut out;
    out.sched_sig = R.sched_sig;
    if (rendezvous) {
        out.max_readers = rv_inside.load();
        if (vrf::global_held_count() != 0) vrf::violation("oracle:lock_leaked_at_quiescence", "{\"held\":" + std::to_string(vrf::global_held_count()) + "}");
        return out;
    }
    vrf::ThreadStats after = vrf::total_stats();
    out.contended = after.lock_contended > before.lock_contended;
    out.max_readers = rs.max_readers.load();
    // (d) nothing is held once everybody has left
    if (vrf::global_held_count() != 0) vrf::violation("oracle:lock_leaked_at_quiescence", "{\"held\":" + std::to_string(vrf::global_held_count()) + "}");
    std::vector<uint32_t> fin = final_log<FAM>(*w);  // for deferred_guarded this access drains the queue
    if (vrf::global_held_count() != 0) vrf::violation("oracle:lock_leaked_at_quiescence", "{\"held\":" + std::to_string(vrf::global_held_count()) + ",\"after\":\"final access\"}");
    // collect
    std::vector<const OpResult*> all;
    for (int t = 0; t < vrf::MAXT; t++)
        for (auto& r : rs.results[t]) all.push_back(&r);
    std::map<uint32_t, int> pos;
    for (size_t i = 0; i < fin.size(); i++) {
        if (pos.count(fin[i])) vrf::violation("oracle:update_applied_twice", "{\"id\":" + std::to_string(fin[i]) + ",\"final\":" + vrf::jnums(fin) + "}");
        pos[fin[i]] = static_cast<int>(i);
    }
    bool stores = P.has_store();
    uint64_t osig = 0;
    for (auto* r : all) osig = vrf::mixhash(osig, static_cast<uint64_t>(r->id) * 4 + (r->success ? 1 : 0));
    for (auto v : fin) osig = vrf::mixhash(osig, v);
    out.outcome_sig = osig;
    if (!stores) {
        // (b) every successful increment is in the final value exactly once, nothing else is
        size_t wrote = 0;
        for (auto* r : all) {
            if (r->wrote) {
                wrote++;
                if (!pos.count(r->id))
                    vrf::violation("oracle:lost_update", "{\"missing_id\":" + std::to_string(r->id) + ",\"op\":\"" + OPN[r->op] + "\",\"final\":" + vrf::jnums(fin) + "}");
            }
        }
        if (wrote != fin.size()) vrf::violation("oracle:final_value_has_unknown_entries", "{\"final\":" + vrf::jnums(fin) + "}");
        for (auto* r : all) {
            if (!r->have_seen) continue;
            // a value read under the lock is a prefix of the final log
            if (r->seen.size() > fin.size() || !std::equal(r->seen.begin(), r->seen.end(), fin.begin()))
                vrf::violation("oracle:read_value_not_a_prefix_of_final", "{\"seen\":" + vrf::jnums(r->seen) + ",\"final\":" + vrf::jnums(fin) + "}");
            if (vrf::clock_is_sync() && FAM != F_DEFERRED) {
                for (auto* wop : all) {
                    if (!wop->wrote) continue;
                    bool in = std::find(r->seen.begin(), r->seen.end(), wop->id) != r->seen.end();
                    if (wop->ret < r->call && !in)
                        vrf::violation("oracle:stale_read", "{\"read_op\":\"" + std::string(OPN[r->op]) + "\",\"missing_id\":" + std::to_string(wop->id) + ",\"seen\":" + vrf::jnums(r->seen) + "}");
                    if (in && wop->call > r->ret)
                        vrf::violation("oracle:read_from_the_future", "{\"id\":" + std::to_string(wop->id) + "}");
                }
            }
        }
    }
    if constexpr (FAM == F_DEFERRED) {
        for (int t = 0; t < vrf::MAXT; t++)
            for (auto& f : futs[t]) {
                if (!vrf::is_ready(f)) vrf::violation("oracle:async_future_not_ready_after_drain", "{}");
                (void)f.get();
            }
    }
    return out;
}

template<template<int, class> class Fn, class... A>
auto dispatch(int fam, int mut, A&&... a)
{
#define GC_CASE(F)                                                                      \
    case F:                                                                             \
        switch (mut) {                                                                  \
            case 0: return Fn<F, vrf::mutex_t>::call(std::forward<A>(a)...);            \
            case 1: return Fn<F, vrf::timed_mutex_t>::call(std::forward<A>(a)...);      \
            case 2: return Fn<F, vrf::shared_mutex_t>::call(std::forward<A>(a)...);     \
            default: return Fn<F, vrf::shared_timed_mutex_t>::call(std::forward<A>(a)...); \
        }
    switch (fam) {
        GC_CASE(F_GUARDED)
        GC_CASE(F_GUARDED_OPT)
        GC_CASE(F_SHARED)
        GC_CASE(F_SHARED_OPT)
        GC_CASE(F_ORDERED)
        default:
            GC_CASE(F_DEFERRED)
    }
#undef GC_CASE
}
template<int FAM, class M>
struct RunRound {
    static RoundOut call(vrf::Round& R, const Program& P, bool excl, bool rv) { return run_round<FAM, M>(R, P, excl, rv); }
};

}  // namespace gc
