// Shared rcu_list workload generator (C05, C12, C13): tiny concurrent rounds on a
// fresh rcu_guarded<rcu_list<T, M, TrackAlloc<T>>> with a quarantining allocator.
#pragma once
#include "all_headers.hpp"
#include "vrf.hpp"

namespace rcu {
using namespace gmlc::libguarded;

template<class T>
struct Val;
template<>
struct Val<vrf::Cell> {
    static vrf::Cell make(uint32_t id) { return vrf::make_value(id); }
    static uint32_t id(const vrf::Cell& c)
    {
        c.check("rcu element");
        return c.value();
    }
    static const char* name() { return "Cell"; }
};
template<>
struct Val<std::string> {
    static std::string make(uint32_t id) { return "value-with-heap-storage-" + std::to_string(id); }
    static uint32_t id(const std::string& s) { return static_cast<uint32_t>(atol(s.c_str() + 24)); }
    static const char* name() { return "std::string"; }
};
template<>
struct Val<int> {
    static int make(uint32_t id) { return static_cast<int>(id); }
    static uint32_t id(const int& v) { return static_cast<uint32_t>(v); }
    static const char* name() { return "int"; }
};

// an element type with an initializer-list constructor next to a (count, value) one: emplace_*(3u, id) must construct
// "3 copies of id" (direct initialisation with the arguments given), the way std::list::emplace_* does
using UVec = std::vector<uint32_t>;
template<>
struct Val<UVec> {
    static UVec make(uint32_t id) { return UVec(3u, id); }
    static uint32_t id(const UVec& v)
    {
        if (v.size() != 3 || v[0] != v[1] || v[1] != v[2])
            vrf::violation("oracle:element_differs_from_the_constructor_arguments_given", "{\"size\":" + std::to_string(v.size()) + ",\"first\":" + std::to_string(v.empty() ? 0 : v[0]) + "}");
        return v[0];
    }
    static const char* name() { return "std::vector<uint32_t>"; }
};
// emplace with real constructor arguments where the element type has a multi-argument constructor, with a whole value otherwise
template<class T, class L>
inline void emplace_at(L& list, bool front, uint32_t id)
{
    if constexpr (std::is_same<T, UVec>::value) {
        uint32_t n = 3;
        if (front) list.emplace_front(n, id);
        else list.emplace_back(n, id);
    } else {
        if (front) list.emplace_front(Val<T>::make(id));
        else list.emplace_back(Val<T>::make(id));
    }
}

struct Act {
    char kind;   // R traverse, Z early reader (handle touched on the empty list, traversal later), E erase, F/B push_front/back, f/b emplace_front/back, H short handle, K keep handle, W traverse with a write handle
    int arg;     // E: target id (-1 all, -2 first); F/B/f/b: id; R/W: pause index (-1 none); K: number of following actions to keep the handle for
    int pause;   // number of pause points
    bool via_star = false;  // reach the list through operator* of the handle instead of operator->
};
inline std::string act_json(const Act& a)
{
    return std::string("{\"k\":\"") + a.kind + "\",\"a\":" + std::to_string(a.arg) + ",\"p\":" + std::to_string(a.pause) + (a.via_star ? ",\"via\":\"*\"" : "") + "}";
}

struct Traversal {
    int thread;
    uint64_t call, ret;           // stamps around the whole traversal (first access .. last step)
    std::vector<uint32_t> seen;
    bool complete;                // walked to the end
    bool write_handle;
};
struct MutEvent {
    int thread;
    char kind;        // F B f b E
    uint32_t id;
    uint64_t call, ret;
    bool effective;   // erase: element was found and erase() called on it
};

template<class T, class M = vrf::mutex_t>
struct Fixture {
    using List = rcu_list<T, M, vrf::TrackAlloc<T>>;
    using G = rcu_guarded<List>;
    using RH = typename G::read_handle;
    using WH = typename G::write_handle;
    vrf::AllocState as;
    std::unique_ptr<G> g;
    std::atomic<int> live_handles{0};
    std::atomic<uint64_t> handles_taken{0};
    std::vector<uint32_t> initial;
    // per-thread logs (written only by the owning vthread, read after the round)
    std::vector<Traversal> trav[vrf::MAXT];
    std::vector<MutEvent> muts[vrf::MAXT];
    uint64_t node_destroys_with_live_handle_before = 0;
    std::atomic<int> pushes_done{0};

    Fixture() { g.reset(new G(vrf::TrackAlloc<T>(&as))); }

    void seed_initial(int k, uint32_t& next_id)
    {
        auto h = g->lock_write();
        for (int i = 0; i < k; i++) {
            uint32_t id = next_id++;
            h->push_back(Val<T>::make(id));
            initial.push_back(id);
        }
        if (k > 0) handles_taken.fetch_add(1, std::memory_order_relaxed);  // registration is lazy: only an accessed handle logs a record
    }

    template<class H>
    void traverse(H& h, int tid, const Act& a, bool write_handle, bool first_use = true,
                  const std::function<void()>* at_pause = nullptr)
    {
        Traversal tv;
        tv.thread = tid;
        tv.write_handle = write_handle;
        tv.complete = false;
        tv.call = vrf::now();
        auto it = a.via_star ? (*h).begin() : h->begin();
        live_handles.fetch_add(1, std::memory_order_relaxed);
        if (first_use) handles_taken.fetch_add(1, std::memory_order_relaxed);
        int idx = 0;
        bool stop = false;
        // the iterator interface is used in all its spellings (pre/post increment, both comparison directions, * and ->)
        while ((idx % 2) ? (h->end() != it) : (it != h->end())) {
            if (it == h->end() || h->end() == it) vrf::violation("oracle:iterator_comparisons_disagree", "{}");
            tv.seen.push_back((idx % 3 == 1) ? Val<T>::id(*(it.operator->())) : Val<T>::id(*it));
            if (idx == a.arg) {
                if (at_pause) (*at_pause)();
                for (int p = 0; p < a.pause; p++) vrf::hyield();
                // re-read the element after the pause: it must still be intact
                (void)Val<T>::id(*it);
            }
            if (a.pause < 0 && idx == -a.pause) {  // early stop
                stop = true;
                break;
            }
            if (idx % 2) {
                auto old = it++;
                if (old == h->end()) vrf::violation("oracle:post_increment_returned_end", "{}");
                (void)Val<T>::id(*old);  // the value returned by post-increment still designates the element just visited
            } else {
                ++it;
            }
            idx++;
            vrf::user_point();
        }
        if (!stop) tv.complete = true;
        tv.ret = vrf::now();
        trav[tid].push_back(std::move(tv));
        live_handles.fetch_sub(1, std::memory_order_relaxed);
    }

    void run_script(int tid, const std::vector<Act>& script)
    {
        std::unique_ptr<RH> kept;
        int keep_for = 0;
        for (size_t ai = 0; ai < script.size(); ai++) {
            const Act& a = script[ai];
            switch (a.kind) {
                case 'R': {
                    RH h(g->lock_read());
                    if (a.pause > 0 && a.arg % 3 == 1) {
                        // handles get copied and moved around (stored in a container, passed by value): the copy is a handle
                        // of its own, and its death takes nothing away from the one that goes on being used
                        (void)h->begin();
                        handles_taken.fetch_add(1, std::memory_order_relaxed);
                        {
                            RH copy(h);
                            (void)copy->begin();
                            handles_taken.fetch_add(1, std::memory_order_relaxed);
                            vrf::user_point();
                        }
                        RH moved(std::move(h));
                        {
                            // assigning a handle to itself (through an alias) changes nothing
                            RH& alias = moved;
                            moved = alias;
                        }
                        traverse(moved, tid, a, false, false);
                        break;
                    }
                    if (a.pause > 0 && a.arg % 3 == 2) {
                        // handles kept in a container that relocates its elements while one of them is in the middle of a
                        // traversal: the relocated handle is still the registered one, the paused iterator stays protected
                        std::vector<RH> pool;
                        pool.reserve(1);
                        pool.push_back(std::move(h));
                        struct PoolHandle {
                            std::vector<RH>* v;
                            auto operator->() const { return (*v)[0].operator->(); }
                            auto& operator*() const { return *(*v)[0]; }
                        } ph{&pool};
                        std::function<void()> grow = [&] {
                            for (int k = 0; k < 2; k++) {
                                pool.push_back(g->lock_read());
                                (void)pool.back()->begin();
                                handles_taken.fetch_add(1, std::memory_order_relaxed);
                                vrf::user_point();
                            }
                            pool.pop_back();
                            pool.shrink_to_fit();
                        };
                        traverse(ph, tid, a, false, true, &grow);
                        break;
                    }
                    traverse(h, tid, a, false);
                    break;
                }
                case 'W': {
                    WH h(g->lock_write());
                    traverse(h, tid, a, true);
                    break;
                }
                case 'Z': {
                    // early reader: the handle is dereferenced first while the list is (possibly) still empty, the reference
                    // it returned is kept, and the traversal starts once a writer has put something in
                    RH h(g->lock_read());
                    const auto& view = *h;
                    (void)view.begin();
                    handles_taken.fetch_add(1, std::memory_order_relaxed);
                    vrf::spin_until([&] { return view.begin() != view.end() || pushes_done.load(std::memory_order_relaxed) != 0; });
                    // everything from here on goes through the reference obtained by the first dereference
                    struct ViewHandle {
                        decltype(&view) v;
                        auto operator->() const { return v; }
                        auto& operator*() const { return *v; }
                    } vh{&view};
                    traverse(vh, tid, a, false, false);
                    break;
                }
                case 'H': {
                    RH h(g->lock_read());
                    if (a.via_star) (void)(*h).begin();
                    else (void)h->begin();
                    handles_taken.fetch_add(1, std::memory_order_relaxed);
                    vrf::user_point();
                    break;
                }
                case 'K': {
                    kept.reset(new RH(g->lock_read()));
                    if (a.via_star) (void)(**kept).begin();
                    else (void)(*kept)->begin();
                    live_handles.fetch_add(1, std::memory_order_relaxed);
                    handles_taken.fetch_add(1, std::memory_order_relaxed);
                    keep_for = a.arg + 1;
                    break;
                }
                case 'F': case 'B': case 'f': case 'b': {
                    MutEvent ev{tid, a.kind, static_cast<uint32_t>(a.arg), 0, 0, true};
                    WH h(g->lock_write());
                    ev.call = vrf::now();
                    if (a.kind == 'F') h->push_front(Val<T>::make(ev.id));
                    else if (a.kind == 'B') h->push_back(Val<T>::make(ev.id));
                    else emplace_at<T>(*h, a.kind == 'f', ev.id);
                    pushes_done.fetch_add(1, std::memory_order_relaxed);
                    handles_taken.fetch_add(1, std::memory_order_relaxed);
                    ev.ret = vrf::now();
                    muts[tid].push_back(ev);
                    break;
                }
                case 'E': {
                    WH h(g->lock_write());
                    auto it = a.via_star ? (*h).begin() : h->begin();
                    live_handles.fetch_add(1, std::memory_order_relaxed);
                    handles_taken.fetch_add(1, std::memory_order_relaxed);
                    while (it != h->end()) {
                        uint32_t id = Val<T>::id(*it);
                        bool hit = (a.arg == -1) || (a.arg == -2) || (static_cast<uint32_t>(a.arg) == id);
                        if (hit) {
                            MutEvent ev{tid, 'E', id, vrf::now(), 0, true};
                            for (int p = 0; p < a.pause; p++) vrf::hyield();
                            it = h->erase(it);
                            ev.ret = vrf::now();
                            muts[tid].push_back(ev);
                            if (a.arg != -1) break;
                        } else {
                            ++it;
                        }
                    }
                    live_handles.fetch_sub(1, std::memory_order_relaxed);
                    break;
                }
                case 'X': {
                    // an eraser that survives allocator failures the way a client would: if erase() throws bad_alloc it
                    // erases the following element (if any) and then retries the failed erase through the same iterator
                    WH h(g->lock_write());
                    auto it = a.via_star ? (*h).begin() : h->begin();
                    live_handles.fetch_add(1, std::memory_order_relaxed);
                    handles_taken.fetch_add(1, std::memory_order_relaxed);
                    for (int skip = 0; skip < a.arg && it != h->end(); skip++) ++it;
                    if (it != h->end()) {
                        uint32_t id = Val<T>::id(*it);
                        MutEvent ev{tid, 'E', id, vrf::now(), 0, true};
                        as.fail_uid.store(vrf::ctx().uid, std::memory_order_relaxed);
                        as.fail_countdown.store(a.pause, std::memory_order_relaxed);
                        bool failed = false;
                        try {
                            (void)h->erase(it);
                        }
                        catch (const std::bad_alloc&) {
                            failed = true;
                        }
                        as.fail_countdown.store(0, std::memory_order_relaxed);
                        if (failed) {
                            auto nx = it;
                            ++nx;
                            if (nx != h->end()) {
                                MutEvent ev2{tid, 'E', Val<T>::id(*nx), vrf::now(), 0, true};
                                (void)h->erase(nx);
                                ev2.ret = vrf::now();
                                muts[tid].push_back(ev2);
                            }
                            vrf::user_point();
                            (void)h->erase(it);  // the retry
                        }
                        ev.ret = vrf::now();
                        muts[tid].push_back(ev);
                    }
                    live_handles.fetch_sub(1, std::memory_order_relaxed);
                    break;
                }
                default: vrf::harness_error("bad action");
            }
            if (kept && --keep_for <= 0) {
                live_handles.fetch_sub(1, std::memory_order_relaxed);
                kept.reset();
            }
        }
        if (kept) {
            live_handles.fetch_sub(1, std::memory_order_relaxed);
            kept.reset();
        }
    }

    std::vector<uint32_t> final_contents()
    {
        std::vector<uint32_t> out;
        RH h(g->lock_read());
        for (auto it = h->begin(); it != h->end(); ++it) out.push_back(Val<T>::id(*it));
        handles_taken.fetch_add(1, std::memory_order_relaxed);
        return out;
    }
};

// random program: scripts for nthreads threads
struct Program {
    int initial;
    bool alloc_faults = false;  // contains 'X' actions (allocator failures are injected: leak accounting is not judged)
    std::vector<std::vector<Act>> scripts;
    std::string json() const
    {
        std::string s = "{\"initial\":" + std::to_string(initial) + ",\"threads\":[";
        for (size_t t = 0; t < scripts.size(); t++) {
            if (t) s += ",";
            s += vrf::jarr(scripts[t].begin(), scripts[t].end(), [](const Act& a) { return act_json(a); });
        }
        return s + "]}";
    }
    uint64_t hash() const
    {
        uint64_t h = static_cast<uint64_t>(initial) + 77;
        for (auto& sc : scripts) {
            h = vrf::mixhash(h, 0xABCD);
            for (auto& a : sc) h = vrf::mixhash(vrf::mixhash(vrf::mixhash(h, static_cast<uint64_t>(a.kind)), static_cast<uint64_t>(a.arg + 10)), static_cast<uint64_t>(a.pause + 10));
        }
        return h;
    }
};

// reclamation-focused family: a parked traversal, erasers aiming at what it stands on, several short-lived and kept handles
inline Program gen_reclaim_program(vrf::Rng& rng, uint32_t first_new_id, bool alloc_faults_allowed = false)
{
    Program p;
    uint32_t next = first_new_id;
    if (rng.chance(15)) {
        // empty start: the parked reader takes and touches its handle before anything is in the list; what a writer adds
        // afterwards (and erases again) is still protected by that handle
        p.initial = 0;
        p.scripts.push_back(std::vector<Act>{Act{'Z', 0, static_cast<int>(rng.range(3, 8)), false}});
        std::vector<Act> w;
        uint32_t a = next++;
        w.push_back(Act{rng.chance(50) ? 'B' : 'f', static_cast<int>(a), 0, false});
        if (rng.chance(50)) w.push_back(Act{'B', static_cast<int>(next++), 0, false});
        w.push_back(Act{'E', static_cast<int>(a), static_cast<int>(rng.below(2)), rng.chance(35)});
        for (int i = static_cast<int>(rng.range(1, 3)); i > 0; i--) w.push_back(Act{'H', 0, 0, rng.chance(35)});
        p.scripts.push_back(w);
        if (rng.chance(60)) p.scripts.push_back(std::vector<Act>{Act{'H', 0, 0, false}, Act{'H', 0, 0, true}, Act{'R', -1, 0, false}});
        return p;
    }
    p.initial = static_cast<int>(rng.range(2, 5));
    int park = static_cast<int>(rng.range(0, p.initial - 1));
    std::vector<Act> reader{Act{rng.chance(80) ? 'R' : 'W', park, static_cast<int>(rng.range(3, 8)), rng.chance(35)}};
    if (rng.chance(40)) reader.push_back(Act{'R', static_cast<int>(rng.range(0, 2)), static_cast<int>(rng.range(1, 4)), rng.chance(35)});
    p.scripts.push_back(reader);
    std::vector<Act> eraser;
    unsigned k = static_cast<unsigned>(rng.below(4));
    if (k == 0) eraser.push_back(Act{'E', -1, 1, false});
    else {
        eraser.push_back(Act{'E', park + 1, static_cast<int>(rng.below(2)), rng.chance(35)});
        if (k >= 2 && park + 2 <= p.initial) eraser.push_back(Act{'E', park + 2, 0, false});
        if (k == 3 && park >= 1) eraser.push_back(Act{'E', park, 0, false});
    }
    if (rng.chance(40)) eraser.push_back(Act{rng.chance(50) ? 'F' : 'b', static_cast<int>(next++), 0, false});
    if (alloc_faults_allowed && rng.chance(30)) {
        // position (0..), and which allocation from the start of erase() fails (1: the log record)
        eraser.insert(eraser.begin(), Act{'X', static_cast<int>(rng.range(0, std::max(0, p.initial - 2))), static_cast<int>(rng.range(1, 2)), rng.chance(35)});
        p.alloc_faults = true;
    }
    p.scripts.push_back(eraser);
    int extra = static_cast<int>(rng.range(1, 3));
    for (int t = 0; t < extra; t++) {
        std::vector<Act> sc;
        int n = static_cast<int>(rng.range(1, 3));
        for (int i = 0; i < n; i++) {
            unsigned r = static_cast<unsigned>(rng.below(100));
            if (r < 55) sc.push_back(Act{'H', 0, 0, rng.chance(35)});
            else if (r < 80) sc.push_back(Act{'K', static_cast<int>(rng.range(0, 2)), 0, rng.chance(35)});
            else sc.push_back(Act{'R', -1, 0, rng.chance(35)});
        }
        p.scripts.push_back(sc);
    }
    return p;
}

inline Program gen_program(vrf::Rng& rng, uint32_t first_new_id, bool big = false, bool alloc_faults_allowed = false)
{
    if (!big && rng.chance(45)) return gen_reclaim_program(rng, first_new_id, alloc_faults_allowed);
    Program p;
    p.initial = static_cast<int>(rng.range(0, big ? 8 : 5));
    int nthreads = static_cast<int>(rng.range(2, big ? 6 : 5));
    uint32_t next = first_new_id;
    // ids 1..initial are the initial elements
    bool have_eraser = false;
    for (int t = 0; t < nthreads; t++) {
        std::vector<Act> sc;
        int na = static_cast<int>(rng.range(1, 3));
        for (int i = 0; i < na; i++) {
            unsigned roll = static_cast<unsigned>(rng.below(100));
            if (roll < 30) {
                int pauseidx = rng.chance(70) ? static_cast<int>(rng.range(0, 3)) : -1;
                int pause = pauseidx >= 0 ? static_cast<int>(rng.range(1, 6)) : (rng.chance(15) ? -static_cast<int>(rng.range(1, 2)) : 0);
                sc.push_back(Act{rng.chance(85) ? 'R' : 'W', pauseidx, pause});
            } else if (roll < 55) {
                int target;
                unsigned r2 = static_cast<unsigned>(rng.below(100));
                if (r2 < 20) target = -1;
                else if (r2 < 35) target = -2;
                else target = static_cast<int>(rng.range(1, std::max(1, p.initial + 2)));
                sc.push_back(Act{'E', target, static_cast<int>(rng.range(0, 2))});
                have_eraser = true;
            } else if (roll < 75) {
                static const char kinds[] = {'F', 'B', 'f', 'b'};
                sc.push_back(Act{kinds[rng.below(4)], static_cast<int>(next++), 0});
            } else if (roll < 90) {
                sc.push_back(Act{'H', 0, 0});
            } else {
                sc.push_back(Act{'K', static_cast<int>(rng.range(0, 2)), 0});
            }
        }
        for (auto& a : sc)
            if (a.kind == 'R' || a.kind == 'W' || a.kind == 'H' || a.kind == 'K' || a.kind == 'E') a.via_star = rng.chance(35);
        p.scripts.push_back(std::move(sc));
    }
    if (!have_eraser) p.scripts[0].push_back(Act{'E', p.initial > 0 ? static_cast<int>(rng.range(1, p.initial)) : -2, 1});
    return p;
}

}  // namespace rcu
