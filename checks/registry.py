"""Registry of checks: which harness binary, which (variant, engine, mode) runs, bounds per tier."""

TSO_NOTE = "x86-TSO hardware: reads-from choices only weaker hardware produces are not observable (DESIGN.md 5)"

CHECKS = {}

CHECKS["C13"] = {
    "src": "C13.cpp",
    "level": "exploration",
    "rule": "sequential scripts (handles in 6 slots, pushes, erases, random release order) and tiny concurrent rounds over element types "
            "Cell / std::string / int with a tracking allocator; exhaustive mode enumerates every release order of <=4 handles x erase placement. "
            "A case is non-trivial when it erased at least one element (reclamation path exercised) or is a handles-only script; distinct = distinct "
            "(script text | program hash x schedule signature).",
    "assumptions": ["records are recognised by the substring 'zombie' in the internal record type name",
                    "handles are never copied (client misuse)"],
    "exhaustive_note": "mode 'exhaustive': all release orders of 1..4 handles x erase placements, for 3 element types (finite space, fully enumerated)",
    "runs": [
        {"variant": "asan", "engine": "off", "mode": "exhaustive", "procs": 1, "rounds": 1},
        {"variant": "asan", "engine": "off", "mode": "stdalloc", "procs": 2, "rounds_quick": 5000, "rounds_thorough": 50000},
        {"variant": "asan", "engine": "off", "mode": "seq", "procs": 4, "rounds_quick": 6000, "rounds_thorough": 60000},
        {"variant": "asan", "engine": "serial", "mode": "conc", "procs_quick": 4, "procs_thorough": 8, "rounds_quick": 1500, "rounds_thorough": 15000},
        {"variant": "asan", "engine": "stress", "mode": "conc", "procs_quick": 4, "procs_thorough": 8, "rounds_quick": 1500, "rounds_thorough": 15000},
        {"variant": "plain", "engine": "serial", "mode": "conc", "procs_quick": 4, "procs_thorough": 8, "rounds_quick": 5000, "rounds_thorough": 50000},
    ],
}
