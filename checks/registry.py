"""Registry of checks: which harness binary, which (variant, engine, mode) runs, bounds per tier."""

TSO_NOTE = "x86-TSO hardware: reads-from choices only weaker hardware produces are not observable (DESIGN.md 5)"

CHECKS = {}

CHECKS["C13"] = {
    "src": "C13.cpp",
    "level": "exploration",
    "rule": "sequential scripts (handles in 6 slots, pushes, erases, random release order) and tiny concurrent rounds over element types "
            "Cell / std::string / int with a tracking allocator; exhaustive mode enumerates every release order of <=4 handles x erase placement. "
            "A case is non-trivial when it erased at least one element (reclamation path exercised) or is a handles-only script; distinct = distinct "
            "(script text | program hash x schedule signature).",
    "assumptions": ["bookkeeping records are recognised as objects constructed from a single pointer argument (element types used are not pointers)",
                    "handles are never copied (client misuse)"],
    "exhaustive_note": "mode 'exhaustive': all release orders of 1..4 handles x erase placements, for 3 element types (finite space, fully enumerated)",
    "runs": [
        {"variant": "asan", "engine": "off", "mode": "exhaustive", "procs": 1, "rounds": 1},
        {"variant": "asan", "engine": "off", "mode": "stdalloc", "procs": 2, "rounds_quick": 5000, "rounds_thorough": 50000},
        {"variant": "asan", "engine": "off", "mode": "composite", "procs": 2, "rounds_quick": 3000, "rounds_thorough": 30000},
        {"variant": "asan", "engine": "off", "mode": "seq", "procs": 4, "rounds_quick": 6000, "rounds_thorough": 60000},
        {"variant": "asan", "engine": "serial", "mode": "conc", "procs_quick": 4, "procs_thorough": 8, "rounds_quick": 1500, "rounds_thorough": 15000},
        {"variant": "asan", "engine": "stress", "mode": "conc", "procs_quick": 4, "procs_thorough": 8, "rounds_quick": 1500, "rounds_thorough": 15000},
        {"variant": "plain", "engine": "serial", "mode": "conc", "procs_quick": 4, "procs_thorough": 8, "rounds_quick": 5000, "rounds_thorough": 50000},
    ],
}

CHECKS["C17"] = {
    "src": "C17.cpp",
    "level": "exploration",
    "rule": "random call sequences (seq: 1 client x 5-18 calls; concurrent: 2-3 clients x 2-4 calls, plus a setup prefix) over names a..d, "
            "types 0..2 and all 12 operations with identity/class/always/never predicates; every history is checked with a WGL search against a "
            "result-directed reference map (predicate removal may remove any matching entry); objects handed out are re-validated after later "
            "removals; ASan+UBSan on every run. Non-trivial: seq history with >= 4 calls, concurrent history in which calls of different clients "
            "overlapped in (logical) time; distinct = hash of (calls, results, schedule signature).",
    "assumptions": ["addType is generated only for names known to be present (effect on absent names unspecified)",
                    "real-time order comes from an acq_rel logical clock; linearizability is not judged in TSan builds"],
    "runs": [
        {"variant": "asan", "engine": "off", "mode": "seq", "procs": 4, "rounds_quick": 6000, "rounds_thorough": 80000},
        {"variant": "asan", "engine": "serial", "mode": "conc", "procs": 4, "rounds_quick": 2500, "rounds_thorough": 30000},
        {"variant": "asan", "engine": "stress", "mode": "conc", "procs": 4, "rounds_quick": 2500, "rounds_thorough": 30000},
        {"variant": "plain", "engine": "serial", "mode": "conc", "procs": 4, "rounds_quick": 8000, "rounds_thorough": 100000},
        {"variant": "tsan", "engine": "stress", "mode": "conc", "procs_quick": 2, "procs_thorough": 4, "rounds_quick": 1500, "rounds_thorough": 15000},
    ],
}

CHECKS["C19"] = {
    "src": "C19.cpp",
    "level": "exploration",
    "rule": "rounds with one trigger thread (life cycles: direct, move-construct, move-construct chain with the moved-from objects destroyed in "
            "either order, move-assign over a trigger of a third line, two triggers on one line) and 1-3 polling detectors on the line plus 0-1 on "
            "another line; explicit, indexed (fresh indices per round, out-of-range probes) and declared lines (one scenario per process). "
            "Non-trivial: some detector observed the line both untripped and tripped in the round; distinct = (life cycle, detector counts, "
            "schedule signature / observed poll counts).",
    "assumptions": ["before/after oracles use the acq_rel logical clock and are disabled in TSan builds (TSan judges the release/acquire pair there)",
                    "the line of a trigger that is move-assigned over is not judged (unspecified)"],
    "runs": [
        {"variant": "plain", "engine": "serial", "stale": 1, "procs": 2, "rounds_quick": 3000, "rounds_thorough": 40000},
        {"variant": "asan", "engine": "stress", "procs": 4, "rounds_quick": 3000, "rounds_thorough": 40000},
        {"variant": "plain", "engine": "serial", "procs": 4, "rounds_quick": 5000, "rounds_thorough": 100000},
        {"variant": "tsan", "engine": "stress", "procs": 4, "rounds_quick": 1500, "rounds_thorough": 20000},
        {"variant": "asan", "engine": "stress", "mode": "declared", "procs_quick": 12, "procs_thorough": 64, "rounds": 1},
        {"variant": "plain", "engine": "serial", "mode": "declared", "procs_quick": 12, "procs_thorough": 64, "rounds": 1},
    ],
}

GUARD_ASSUME = ["programs: 2-4 threads x 2-6 operations on one wrapper; recursive mutex types and custom lockables are not exercised",
                "liveness is restated as bounded progress: every thread of a small round terminates (logical deadlock/livelock detection in the "
                "serial engine, blocked-state watchdog in the stress engine)"]

CHECKS["C01"] = {
    "src": "C01.cpp",
    "level": "exploration",
    "rule": "generated client programs (2-4 threads x 2-6 ops drawn from lock, try_lock, try_lock_for/until, load, store, operator=, modify) on "
            "guarded / guarded_opt(true) / shared_guarded / shared_guarded_opt(true) / ordered_guarded x {mutex, timed_mutex, shared_mutex, "
            "shared_timed_mutex}; every access opens a window on the payload (any two windows conflict), increments append a unique id. "
            "Oracles: no window overlap, no torn payload, no lost/duplicated id, reads are prefixes and not stale (logical clock), no lock held at "
            "quiescence, no foreign/double unlock (shadow state), all threads terminate. Non-trivial: some lock acquisition in the round found "
            "the lock taken; distinct = (program, schedule signature, outcome).",
    "assumptions": GUARD_ASSUME,
    "runs": [
        {"variant": "plain", "engine": "serial", "procs": 6, "rounds_quick": 6000, "rounds_thorough": 120000},
        {"variant": "plain", "engine": "stress", "procs": 3, "rounds_quick": 3000, "rounds_thorough": 60000},
        {"variant": "asan", "engine": "stress", "procs": 3, "rounds_quick": 1500, "rounds_thorough": 30000},
        {"variant": "asan", "engine": "serial", "procs": 2, "rounds_quick": 1500, "rounds_thorough": 30000},
        {"variant": "tsan", "engine": "stress", "procs": 2, "rounds_quick": 1000, "rounds_thorough": 20000},
    ],
}

CHECKS["C02"] = {
    "src": "C02.cpp",
    "level": "exploration",
    "rule": "generated client programs mixing lock_shared / try_lock_shared(_for/_until) / const lock() / read / load with lock / try_lock* / modify "
            "/ store / = / modify_detach / modify_async on shared_guarded, shared_guarded_opt(true), ordered_guarded, deferred_guarded x 4 mutex "
            "types; reader windows may overlap each other, never a writer window; a handle's view must not change while held; rendezvous rounds "
            "(two readers must be inside together) for shared-capable mutexes; on mutex/timed_mutex two readers inside together is a violation. "
            "Non-trivial: a lock acquisition found the lock taken or >= 2 readers were inside together; distinct = (program, schedule, outcome).",
    "assumptions": GUARD_ASSUME + ["'never blocked merely by another reader' is tested with no writer present (platform rwlock fairness policy is not judged)"],
    "runs": [
        {"variant": "plain", "engine": "serial", "procs": 6, "rounds_quick": 6000, "rounds_thorough": 120000},
        {"variant": "plain", "engine": "stress", "procs": 3, "rounds_quick": 3000, "rounds_thorough": 60000},
        {"variant": "asan", "engine": "stress", "procs": 3, "rounds_quick": 1500, "rounds_thorough": 30000},
        {"variant": "asan", "engine": "serial", "procs": 2, "rounds_quick": 1500, "rounds_thorough": 30000},
        {"variant": "tsan", "engine": "stress", "procs": 2, "rounds_quick": 1000, "rounds_thorough": 20000},
    ],
}

LOCKFREE_ASSUME = ["x86-TSO hardware: the TSO amplifier (stores weaker than seq_cst are delayed in a simulated store buffer) covers weakened stores; "
                   "weakened loads/RMW orders are not observable on this hardware with this family",
                   "real-time oracles use the acq_rel logical clock and are disabled in TSan builds"]

CHECKS["C03"] = {
    "src": "C03.cpp",
    "level": "exploration",
    "rule": "tiny rounds on lr_guarded<Cell>: 1-3 writers (1-3 modify calls appending a unique id; the functor opens a write window on the copy it "
            "is given) and 1-4 readers using lock_shared / try_lock_shared(_for/_until), holding the handle across user points. Oracles: window "
            "overlap per copy, handle view stable, snapshot is a prefix of the final log, per-reader monotone, no stale read / read from the "
            "future (logical clock), final log = every id once in per-writer and real-time order, both copies equal at quiescence. Non-trivial: "
            "a read and a modify overlapped in logical time; distinct = (program, schedule signature, observed snapshots).",
    "assumptions": LOCKFREE_ASSUME,
    "runs": [
        {"variant": "plain", "engine": "serial", "stale": 1, "procs": 2, "rounds_quick": 4000, "rounds_thorough": 60000},
        {"variant": "plain", "engine": "serial", "procs": 5, "rounds_quick": 8000, "rounds_thorough": 150000},
        {"variant": "plain", "engine": "stress", "procs": 3, "rounds_quick": 5000, "rounds_thorough": 100000},
        {"variant": "plain", "engine": "stress", "tso": 1, "procs": 2, "rounds_quick": 4000, "rounds_thorough": 80000},
        {"variant": "plain", "engine": "serial", "tso": 1, "procs": 2, "rounds_quick": 4000, "rounds_thorough": 80000},
        {"variant": "asan", "engine": "stress", "procs": 2, "rounds_quick": 2000, "rounds_thorough": 40000},
        {"variant": "tsan", "engine": "stress", "procs": 2, "rounds_quick": 1500, "rounds_thorough": 30000},
    ],
}

CHECKS["C04"] = {
    "src": "C04.cpp",
    "level": "exploration",
    "rule": "tiny rounds on cow_guarded<Cell>: 2-5 threads x 1-4 actions (write handle: check initial content, append own id, optionally "
            "move-construct the handle, then commit or cancel(); snapshot via lock_shared / try forms, kept across 0-2 later actions and "
            "re-validated). Oracles: snapshot content/pointer/liveness unchanged while held, committed objects frozen (any later write window "
            "is a violation), each write handle started from the latest commit, final log = committed ids once each in commit order, no "
            "cancelled id, no stale snapshot (logical clock), writer lock free at quiescence (a further lock()+cancel() completes), payload "
            "instance count returns to baseline. Non-trivial: a snapshot overlapped a write in logical time or was kept across later "
            "actions; distinct = (program, schedule signature, observed snapshots).",
    "assumptions": LOCKFREE_ASSUME + ["cow_guarded::try_lock* do not compile when instantiated and are not exercised",
                                      "a handle is released by the thread that locked it"],
    "runs": [
        {"variant": "plain", "engine": "serial", "procs": 5, "rounds_quick": 6000, "rounds_thorough": 120000},
        {"variant": "plain", "engine": "stress", "procs": 3, "rounds_quick": 4000, "rounds_thorough": 80000},
        {"variant": "plain", "engine": "stress", "tso": 1, "procs": 2, "rounds_quick": 3000, "rounds_thorough": 60000},
        {"variant": "asan", "engine": "stress", "procs": 2, "rounds_quick": 2000, "rounds_thorough": 40000},
        {"variant": "plain", "engine": "off", "mode": "allocfault", "procs": 1, "rounds": 1},
        {"variant": "asan", "engine": "serial", "procs": 2, "rounds_quick": 2000, "rounds_thorough": 40000},
        {"variant": "tsan", "engine": "stress", "procs": 2, "rounds_quick": 1500, "rounds_thorough": 30000},
    ],
}

CHECKS["C05"] = {
    "src": "C05.cpp",
    "level": "exploration",
    "rule": "tiny rounds on a fresh rcu_guarded<rcu_list<T, mutex, TrackAlloc>> (T = Cell or std::string, 0-5 initial elements, 2-5 threads x 1-3 "
            "actions: traversals pausing on an element and re-reading it afterwards, erasers by id / first / all, pushers, short-lived handles whose "
            "release triggers reclamation, handles kept across later actions). Freed nodes and log records are quarantined (never reused within the "
            "round) and poisoned: ASan reports any touch, plain builds see 0xDD fill / dead payload magic / SIGSEGV. Non-trivial: a node was "
            "reclaimed while another handle was still alive; distinct = (program, schedule signature).",
    "assumptions": ["handles are never copied (client misuse, outside the property)", "bookkeeping records are recognised as objects constructed from a single pointer argument"],
    "runs": [
        {"variant": "plain", "engine": "serial", "stale": 1, "procs": 2, "rounds_quick": 3000, "rounds_thorough": 40000},
        {"variant": "asan", "engine": "serial", "procs": 6, "rounds_quick": 3000, "rounds_thorough": 50000},
        {"variant": "asan", "engine": "stress", "procs": 4, "rounds_quick": 2500, "rounds_thorough": 40000},
        {"variant": "plain", "engine": "serial", "procs": 4, "rounds_quick": 8000, "rounds_thorough": 150000},
        {"variant": "asan", "engine": "serial", "mode": "big", "procs": 2, "rounds_quick": 1000, "rounds_thorough": 20000, "tiers": ["thorough"]},
        {"variant": "tsan", "engine": "stress", "procs": 2, "rounds_quick": 1000, "rounds_thorough": 20000},
    ],
}

CHECKS["C06"] = {
    "src": "C06.cpp",
    "level": "exploration",
    "rule": "tiny rounds on deferred_guarded<Cell, M> (4 mutex types): 1-3 submitters x 1-5 modify_detach / modify_async (int and void, 12% "
            "throwing) with unique ids, 1-3 readers holding shared handles (all acquisition forms) for random spans, loads; after the submitters "
            "returned one lock_shared / try_lock_shared / modify_detach is made with no handle held. Oracles: execution count of every functor == 1 "
            "after that access (stranded / twice), functor window exclusive against readers and other functors, execution order respects each "
            "submitter's order and real time, final log = non-throwing ids once each, futures ready with the functor's result or its exception, "
            "no lock held when a submission returns. Non-trivial: some submission took the queued path; distinct = (program, schedule, order).",
    "assumptions": ["a queued task with no later access is, by design, not applied; only 'applied by the next access' is demanded",
                    "whether a throwing modify_detach ran on the direct or the queued path is not observable, so exception delivery to the caller is "
                    "judged only in C20 (sequential direct path)"],
    "runs": [
        {"variant": "plain", "engine": "serial", "procs": 6, "rounds_quick": 6000, "rounds_thorough": 120000},
        {"variant": "plain", "engine": "stress", "procs": 3, "rounds_quick": 4000, "rounds_thorough": 80000},
        {"variant": "asan", "engine": "stress", "procs": 2, "rounds_quick": 2000, "rounds_thorough": 40000},
        {"variant": "asan", "engine": "serial", "procs": 2, "rounds_quick": 2000, "rounds_thorough": 40000},
        {"variant": "tsan", "engine": "stress", "procs": 2, "rounds_quick": 1500, "rounds_thorough": 30000},
    ],
}

CV_ASSUME = ["liveness ('every waiter is released') is restated as termination of every small round: logical deadlock detection in the serial engine, "
             "blocked-state watchdog in the stress engine", "spurious wake-ups are injected only at entry of a wait, never to rescue a parked waiter"]

CHECKS["C09"] = {
    "src": "C09.cpp",
    "level": "exploration",
    "rule": "rounds with N=2..6 threads over G=2..6 consecutive generations of one Barrier, each thread with a predetermined drop generation "
            "(wait_and_drop) or none, fast re-entry mixed with delays, injected spurious wake-ups. Each thread bumps arrivals[n] before its n-th "
            "call and on return checks arrivals[n] == number of participants of generation n. Non-trivial: some thread actually blocked in the "
            "condition variable; distinct = (program, schedule signature).",
    "assumptions": CV_ASSUME + ["barriers whose threshold reaches zero are not exercised"],
    "runs": [
        {"variant": "plain", "engine": "serial", "stale": 1, "procs": 2, "rounds_quick": 3000, "rounds_thorough": 40000},
        {"variant": "plain", "engine": "serial", "procs": 6, "rounds_quick": 6000, "rounds_thorough": 120000},
        {"variant": "plain", "engine": "stress", "procs": 4, "rounds_quick": 2500, "rounds_thorough": 50000},
        {"variant": "tsan", "engine": "stress", "procs": 2, "rounds_quick": 1000, "rounds_thorough": 20000},
    ],
}

CHECKS["C10"] = {
    "src": "C10.cpp",
    "level": "exploration",
    "rule": "rounds on a fresh Latch(count 0..4): 2-6 threads x 1-3 actions (arrive, wait, arrive_and_wait, delays), at least `count` arrivals in "
            "total (sometimes more), optionally a late waiter that starts after everybody finished (unlocked fast path), injected spurious "
            "wake-ups. Oracles: at every wait return at least `count` arrive calls had been invoked; arrive never enters a condition wait; the "
            "late waiter does not block; all threads terminate. Non-trivial: some wait actually blocked in the condition variable; distinct = "
            "(program, schedule signature, number of condition waits).",
    "assumptions": CV_ASSUME,
    "runs": [
        {"variant": "plain", "engine": "serial", "stale": 1, "procs": 2, "rounds_quick": 4000, "rounds_thorough": 60000},
        {"variant": "plain", "engine": "serial", "procs": 6, "rounds_quick": 8000, "rounds_thorough": 150000},
        {"variant": "plain", "engine": "stress", "procs": 4, "rounds_quick": 3000, "rounds_thorough": 60000},
        {"variant": "tsan", "engine": "stress", "procs": 2, "rounds_quick": 1500, "rounds_thorough": 20000},
    ],
}

CHECKS["C11"] = {
    "src": "C11.cpp",
    "level": "exploration",
    "rule": "activation cycles on one TriggerVariable (1-3 cycles per variable, separated by a quiescent reset): 0-2 activation waiters "
            "(waitActivation / wait_forActivation), an activator, 1-3 trigger waiters (wait / wait_for with 0, 1 and 50 ms; scheduler-chosen "
            "time-outs in the serial engine), one finisher (trigger, reset, or trigger then reset) with random delays. Event stamps from the "
            "logical clock decide: a wait that returned true needs a trigger/reset invoked before its return, a timed false needs the event not "
            "to have completed before the call, trigger on an inactive variable returns false and changes nothing, inactive after reset; every "
            "thread terminates (no lost wake-up). Non-trivial: some waiter blocked in a condition variable; distinct = (program, schedule, waits).",
    "assumptions": CV_ASSUME + ["the variable is not re-activated while waiters of the previous cycle are still blocked (as the property states)"],
    "runs": [
        {"variant": "plain", "engine": "serial", "stale": 1, "procs": 2, "rounds_quick": 2500, "rounds_thorough": 40000},
        {"variant": "plain", "engine": "serial", "procs": 6, "rounds_quick": 5000, "rounds_thorough": 100000},
        {"variant": "plain", "engine": "stress", "procs": 4, "rounds_quick": 1500, "rounds_thorough": 30000},
        {"variant": "tsan", "engine": "stress", "procs": 2, "rounds_quick": 800, "rounds_thorough": 15000},
    ],
}

CHECKS["C12"] = {
    "src": "C12.cpp",
    "level": "exploration",
    "rule": "tiny concurrent rounds on rcu_list (unique values; pushers front/back/emplace, erasers by id/first/all, traversals with read and "
            "write handles that pause on elements) and single-threaded sequences compared with std::list after every step (every fourth one with element constructors that insert "
            "into the same recursive-mutex list, judged against the sequential results of the nested operations). Per traversal: only "
            "inserted values, no duplicates, every element that was in the list for the whole traversal (insert returned before, no erase "
            "started before its end - logical clock) is visited; globally the union of all observed pairwise orders (traversals, final contents, "
            "front/initial/back structure, per-thread and real-time push order) must be acyclic; final contents = inserted - erased. "
            "Non-trivial: a traversal overlapped a mutation in logical time (seq: >= 6 steps); distinct = (program, schedule, final contents).",
    "assumptions": ["real-time oracles (stable set, cross-thread push order) use the acq_rel logical clock and are disabled in TSan builds"],
    "runs": [
        {"variant": "plain", "engine": "serial", "stale": 1, "procs": 2, "rounds_quick": 3000, "rounds_thorough": 40000},
        {"variant": "asan", "engine": "off", "mode": "seq", "procs": 2, "rounds_quick": 4000, "rounds_thorough": 60000},
        {"variant": "plain", "engine": "serial", "procs": 6, "rounds_quick": 8000, "rounds_thorough": 150000},
        {"variant": "plain", "engine": "stress", "procs": 3, "rounds_quick": 4000, "rounds_thorough": 80000},
        {"variant": "asan", "engine": "stress", "procs": 2, "rounds_quick": 1500, "rounds_thorough": 30000},
        {"variant": "tsan", "engine": "stress", "procs": 2, "rounds_quick": 1000, "rounds_thorough": 20000},
    ],
}

CHECKS["C15"] = {
    "src": "C15.cpp",
    "level": "exploration",
    "rule": "histories of 2-3 threads x 3-6 operations with unique written values on atomic_guarded<Cell> (load, store, =, exchange, "
            "compare_exchange with expectations drawn from values seen so far), guarded / guarded_opt / ordered_guarded (load, store, =) and "
            "deferred_guarded (load against modify_detach writers; queued writes stay open to the end of the history), plus a final load; each "
            "history is checked by a WGL search against a sequential register; every loaded value is checked for tearing (multi-word payload "
            "copied with scheduling points between words); seq mode: single-threaded sequences with exact register semantics. Non-trivial: "
            "calls of different threads overlapped in logical time; distinct = (operations, results, schedule signature).",
    "assumptions": ["linearizability is judged with the acq_rel logical clock and not in TSan builds", "search budget 1e5 nodes per history; overruns are counted as inconclusive"],
    "runs": [
        {"variant": "asan", "engine": "off", "mode": "seq", "procs": 1, "rounds_quick": 5000, "rounds_thorough": 50000},
        {"variant": "plain", "engine": "serial", "procs": 6, "rounds_quick": 8000, "rounds_thorough": 150000},
        {"variant": "plain", "engine": "stress", "procs": 4, "rounds_quick": 4000, "rounds_thorough": 80000},
        {"variant": "asan", "engine": "stress", "procs": 2, "rounds_quick": 1500, "rounds_thorough": 30000},
        {"variant": "tsan", "engine": "stress", "procs": 2, "rounds_quick": 1000, "rounds_thorough": 20000},
    ],
}

CHECKS["C08"] = {
    "src": "C08.cpp",
    "level": "exploration",
    "rule": "handle life-cycle scripts: 1-3 threads x 1-4 cycles (acquire by lock / try / try_for / try_until, exclusive or shared side, hold, "
            "release by destruction / unlock() / move-construction with the moved-from handle destroyed first or last / move-assignment over a "
            "handle holding another wrapper's lock / move-assignment to itself) on guarded, guarded_opt(on/off), shared_guarded, shared_guarded_opt(on/off), ordered_guarded, "
            "deferred_guarded x 4 mutex types, plus guarded / guarded_opt over recursive_mutex and recursive_timed_mutex with a nested acquisition by the owner; durations include zero and negative ones, deadlines are steady_clock or system_clock time points. The shim's per-thread shadow lock set decides: bool(handle) == (one more lock held), released exactly "
            "once and only by the owning handle, null after unlock() and after being moved from, nothing held at quiescence, a further try-acquisition succeeds; disabled "
            "mode: non-null, zero mutex operations; a try / timed form never waits untimed for the lock that handles hold and never asks the mutex for "
            "a longer time-out than the caller gave (shim counters, no wall clock). Non-trivial: some attempt failed (null "
            "handle), or disabled mode, or a solo round (try on a free lock must succeed); distinct = (program, schedule, outcome counts).",
    "assumptions": ["spurious try_lock failure is judged only in single-threaded rounds"],
    "runs": [
        {"variant": "plain", "engine": "serial", "procs": 6, "rounds_quick": 6000, "rounds_thorough": 120000},
        {"variant": "plain", "engine": "stress", "procs": 4, "rounds_quick": 3000, "rounds_thorough": 60000},
        {"variant": "asan", "engine": "stress", "procs": 2, "rounds_quick": 1500, "rounds_thorough": 30000},
        {"variant": "tsan", "engine": "stress", "procs": 2, "rounds_quick": 1000, "rounds_thorough": 20000},
    ],
}

CHECKS["C16"] = {
    "src": "C16.cpp",
    "level": "exploration",
    "rule": "rounds on DelayedDestructor<Elem> (concurrent: 2-4 threads x 2-5 actions; seq: both classes, 2-12 actions): add elements whose "
            "external owner drops its reference 0-3 actions later (or only after the container is gone), destroyObjects(), destroyObjects(delay), "
            "size(); 35% of the elements re-enter the container from their destructor (size / add a child / destroyObjects), optional callback "
            "that may re-enter or throw; the serial engine fires lock time-outs at arbitrary points. Oracles in the element destructor / "
            "callback: destroyed once, no other owner registered, no shim mutex held by the running thread, callback ran exactly once before a "
            "reaped element; at quiescence added == destroyed + size(); after container destruction every element without a late owner is "
            "destroyed, late-owned ones only by their last owner; no deadlock. Non-trivial: a destructor re-entered the container, or elements "
            "were destroyed in a concurrent round; distinct = (program, schedule signature).",
    "assumptions": ["elements are added once and never resurrected through weak_ptr", "the container is not used concurrently with its own destructor",
                    "a return value of (size_t)-1 from destroyObjects carries no information"],
    "runs": [
        {"variant": "asan", "engine": "off", "mode": "seq", "procs": 2, "rounds_quick": 1500, "rounds_thorough": 20000},
        {"variant": "plain", "engine": "serial", "procs": 6, "rounds_quick": 5000, "rounds_thorough": 100000},
        {"variant": "asan", "engine": "stress", "procs": 3, "rounds_quick": 1200, "rounds_thorough": 20000},
        {"variant": "asan", "engine": "serial", "procs": 2, "rounds_quick": 1500, "rounds_thorough": 30000},
        {"variant": "tsan", "engine": "stress", "procs": 2, "rounds_quick": 600, "rounds_thorough": 10000},
    ],
}

CHECKS["C18"] = {
    "src": "C18.cpp",
    "level": "exploration",
    "rule": "histories on DelayedObjects<std::string> over 2 integer and 2 string keys (each requested at most once, in a setup prefix or by a "
            "thread): getFuture, setDelayedValue (copy and move, unique values), fulfillAllPromises, finishedWithValue, isRecognized, isCompleted, "
            "consumers polling futures; the container is destroyed with futures outstanding and every future is then read. Every history "
            "(including the final future values) is checked by a WGL search against a per-key life-cycle model {unknown, pending, completed(v), "
            "finished}; any exception from the API or a future, a future not ready after destruction, or a corrupt value is a violation. seq mode: "
            "single-threaded sequences of 4-16 calls. Non-trivial: calls of different threads overlapped (seq: >= 5 calls); distinct = (calls, "
            "results, schedule signature).",
    "assumptions": ["each key is requested once (as the property states)", "linearizability is judged with the acq_rel logical clock and not in TSan builds"],
    "runs": [
        {"variant": "asan", "engine": "off", "mode": "seq", "procs": 2, "rounds_quick": 6000, "rounds_thorough": 80000},
        {"variant": "plain", "engine": "serial", "procs": 6, "rounds_quick": 6000, "rounds_thorough": 120000},
        {"variant": "asan", "engine": "stress", "procs": 3, "rounds_quick": 2000, "rounds_thorough": 40000},
        {"variant": "asan", "engine": "serial", "procs": 2, "rounds_quick": 2000, "rounds_thorough": 40000},
        {"variant": "tsan", "engine": "stress", "procs": 2, "rounds_quick": 1000, "rounds_thorough": 20000},
    ],
}

CHECKS["C14"] = {
    "src": "C14.cpp",
    "level": "fault_enumeration",
    "rule": "for each writer operation (lr modify, cow lock+commit, cow lock+cancel, rcu push_front/back, emplace_front/back, erase), with and "
            "without a read handle taken beforehand, a dry run counts the scheduling points K the operation executes (every atomic access, lock, "
            "yield, user point; capped at 90 where spin loops repeat); for every k <= K the writer is frozen at its k-th point while 1-3 reader "
            "threads run 1-3 complete read operations (lock_shared / try forms, dereference, snapshot copy, lock_read / begin / full traversal, "
            "release) under random schedules; then the early handle is released, the writer is resumed and must finish. Violations: a reader "
            "that cannot run to completion (no runnable thread / step budget) while the writer is frozen, a contended lock, condition wait or "
            "spin-yield inside a read acquisition, a writer that does not finish. 'late' mode: an early handle makes the lr writer wait, a "
            "second handle is taken only once the writer spins and is kept until the writer has finished (a writer may be delayed only by "
            "handles still held from before its switch): the round must terminate. Non-trivial: the writer was actually frozen in the round "
            "(late mode: every round); "
            "distinct = (writer op, early handle, k, schedule signature).",
    "assumptions": ["the suspension points of each writer operation are enumerated completely (up to the cap inside spin loops); reader scripts and "
                    "schedules are sampled", "suspension is simulated by the serialized scheduler: only scheduling points (shim hooks) are suspension points"],
    "exhaustive_note": "writer suspension points 1..K per operation (K measured per run, listed in samples) are all visited; readers/schedules sampled",
    "runs": [
        {"variant": "plain", "engine": "serial", "procs_quick": 6, "procs_thorough": 12, "rounds_quick": 4, "rounds_thorough": 60},
        {"variant": "asan", "engine": "serial", "procs_quick": 2, "procs_thorough": 4, "rounds_quick": 2, "rounds_thorough": 20},
        {"variant": "plain", "engine": "serial", "mode": "late", "procs": 2, "rounds_quick": 1500, "rounds_thorough": 30000},
        {"variant": "plain", "engine": "stress", "mode": "late", "procs": 2, "rounds_quick": 600, "rounds_thorough": 10000},
    ],
}

CHECKS["C20"] = {
    "src": "C20.cpp",
    "level": "fault_enumeration",
    "rule": "18 scenarios, one per user-code call site family (lr_guarded::modify functor, alone and as a double fault together with the "
            "copy that rolls back / completes; ordered_guarded modify/read functors, void and "
            "value-returning; Cell assignment / copy inside guarded store, =, load; copy, assignment and == inside atomic_guarded store, exchange, "
            "compare_exchange on both paths; the deep copy in cow_guarded::lock; deferred_guarded functors on the direct and on the queued path; "
            "SearchableObjectHolder predicates in find / find+type / remove; DelayedDestructor callbacks). A fault-free dry run counts the "
            "invocations K of the scenario's sites; then for every k = 1..K the k-th invocation throws (throw-point space enumerated completely), "
            "sequentially under ASan+UBSan and with a concurrent partner thread under the serial and stress engines (stress also under TSan). Oracles: no shim mutex held "
            "by the thrower after unwinding nor at quiescence, exception propagated / captured in the future / swallowed as documented, a further "
            "blocking acquisition by the same and by the partner thread completes, lr_guarded all-or-nothing (throw in 1st application: value "
            "unchanged, in 2nd: completed) with both copies equal, objects unchanged by aborted calls, DelayedDestructor elements still destroyed "
            "exactly once. Non-trivial: an exception was actually injected in the round; distinct = (scenario, k, schedule signature).",
    "assumptions": ["a throw from Cell assignment inside lr_guarded's own roll-back/roll-forward handler (double fault) leaves the value indeterminate: in that scenario only lock release, liveness of both copies and single destruction are judged",
                    "the wrapped type's assignment throws before modifying its target (strong guarantee of the payload)"],
    "exhaustive_note": "throw points 1..K of every scenario (K measured by a dry run, listed in samples) are all injected",
    "runs": [
        {"variant": "asan", "engine": "off", "mode": "seq", "procs": 1, "rounds": 1},
        {"variant": "plain", "engine": "serial", "mode": "conc", "procs_quick": 6, "procs_thorough": 12, "rounds_quick": 25, "rounds_thorough": 600},
        {"variant": "asan", "engine": "stress", "mode": "conc", "procs_quick": 3, "procs_thorough": 6, "rounds_quick": 8, "rounds_thorough": 200},
        {"variant": "asan", "engine": "serial", "mode": "conc", "procs_quick": 2, "procs_thorough": 4, "rounds_quick": 8, "rounds_thorough": 200},
        {"variant": "tsan", "engine": "stress", "mode": "conc", "procs_quick": 3, "procs_thorough": 6, "rounds_quick": 20, "rounds_thorough": 300},
    ],
}


# C07: (1) publication probes with plain payload fields in the TSan build, (2) every other property's stress workload re-run in the TSan
# build (reports are attributed to C07 here and to the owning property in its own check), (3) lock-free workloads under the TSO amplifier.
_C07_RERUN = ["C01", "C02", "C03", "C04", "C05", "C06", "C08", "C09", "C10", "C11", "C12", "C15", "C16", "C17", "C18", "C19"]
_c07_runs = [
    {"variant": "tsan", "engine": "stress", "procs_quick": 4, "procs_thorough": 8, "rounds_quick": 3000, "rounds_thorough": 40000},
    {"variant": "plain", "engine": "stress", "tso": 1, "procs": 2, "rounds_quick": 3000, "rounds_thorough": 40000},
    {"variant": "plain", "engine": "serial", "tso": 1, "procs": 2, "rounds_quick": 3000, "rounds_thorough": 40000},
    {"variant": "asan", "engine": "stress", "procs": 2, "rounds_quick": 1500, "rounds_thorough": 20000},
]
for _p in _C07_RERUN:
    _m = {"C13": "conc", "C17": "conc", "C20": "conc"}.get(_p)
    _r = {"src": _p + ".cpp", "variant": "tsan", "engine": "stress", "procs_quick": 1, "procs_thorough": 3,
          "rounds_quick": {"C11": 500, "C16": 500, "C19": 1000}.get(_p, 800), "rounds_thorough": 10000, "x": {"as": "C07"}}
    if _m:
        _r["mode"] = _m
    _c07_runs.append(_r)
for _p, _rq in (("C03", 3000), ("C05", 2000), ("C12", 2000), ("C19", 2000), ("C10", 3000), ("C11", 2000)):
    _c07_runs.append({"src": _p + ".cpp", "variant": "plain", "engine": "serial", "stale": 1, "procs": 1, "rounds_quick": _rq, "rounds_thorough": _rq * 15, "x": {"as": "C07"}})
_c07_runs.append({"variant": "plain", "engine": "serial", "stale": 1, "procs": 2, "rounds_quick": 3000, "rounds_thorough": 40000})
for _p, _rq in (("C03", 2500), ("C04", 2000), ("C05", 2000), ("C19", 2000)):
    _c07_runs.append({"src": _p + ".cpp", "variant": "plain", "engine": "stress", "tso": 1, "procs": 1, "rounds_quick": _rq, "rounds_thorough": _rq * 15, "x": {"as": "C07"}})
    _c07_runs.append({"src": _p + ".cpp", "variant": "plain", "engine": "serial", "tso": 1, "procs": 1, "rounds_quick": _rq, "rounds_thorough": _rq * 15, "x": {"as": "C07"}})

CHECKS["C07"] = {
    "src": "C07.cpp",
    "level": "exploration",
    "rule": "(1) 11 publication probes with plain non-atomic payload fields, one per hand-over the library performs (left-right functor -> reader "
            "-> next functor, cow commit -> snapshot, rcu node construct -> traverse -> reclaim, latch arrive -> wait incl. the unlocked fast "
            "path, trigger/activate -> wait, barrier generations, deferred queue, DelayedObjects promise -> future, trip wire, shared/ordered "
            "handles, DelayedDestructor add -> reap) under ThreadSanitizer with delay injection; (2) the stress workloads of C01-C06, C08-C12, "
            "C15-C19 re-run in the TSan build; (3) lr / cow / rcu / trip-wire workloads and the probes with the TSO store-buffer amplifier; "
            "(4) lr / rcu / trip-wire / latch / trigger workloads and the probes in the serial engine with the stale-load layer (a load whose "
            "source-level order is weaker than seq_cst may be answered with any store that coherence and happens-before - tracked with vector "
            "clocks over shim atomics, mutexes and harness synchronisation - still allow). "
            "A TSan report block (data race, mutex misuse, heap-use-after-free), a torn or stale plain payload, or any monitor violation under "
            "the amplifier is a violation. Every round is non-trivial (each exercises a cross-thread hand-over); distinct = (workload, round / "
            "schedule signature).",
    "assumptions": ["ThreadSanitizer decides happens-before only for executions that occur and for synchronisation it intercepts; the shim "
                    "implements timed locking by polling try_lock, so pthread_*_clocklock (not intercepted by this TSan) is never used",
                    TSO_NOTE,
                    "weakened loads are covered by the stale-load layer only in the serial engine and only in harnesses whose threads "
                    "communicate through shim primitives and harness synchronisation (lr, rcu, trip wire, latch, trigger, barrier); weakened RMW "
                    "orders and fences, and cow_guarded / futures (shared_ptr and promise internals are not modelled), stay out of reach"],
    "runs": _c07_runs,
}
