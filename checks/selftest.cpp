// Engine self-test (DESIGN.md 8): toy programs written directly against the shim primitives, each in a buggy and a
// correct version.  The engines / monitors must flag exactly the buggy ones.  --mode selects the toy, --x-buggy 0|1.
#include "all_headers.hpp"
#include "vrf.hpp"
using vrf::Cell;
using vrf::Win;

int main(int argc, char** argv)
{
    vrf::init(argc, argv, "SELFTEST");
    bool buggy = vrf::cfg.geti("buggy", 0) != 0;
    const std::string mode = vrf::cfg.mode;
    for (long r = 0; r < vrf::cfg.rounds; r++) {
        vrf::Round R(r);
        R.program("{\"toy\":\"" + mode + "\",\"buggy\":" + (buggy ? "1" : "0") + "}");
        if (mode == "lock_order") {  // AB / BA deadlock
            vrf::mutex_t a, b;
            R.spawn([&] {
                std::lock_guard<vrf::mutex_t> l1(a);
                vrf::user_point();
                std::lock_guard<vrf::mutex_t> l2(b);
            });
            R.spawn([&] {
                if (buggy) {
                    std::lock_guard<vrf::mutex_t> l2(b);
                    vrf::user_point();
                    std::lock_guard<vrf::mutex_t> l1(a);
                } else {
                    std::lock_guard<vrf::mutex_t> l1(a);
                    vrf::user_point();
                    std::lock_guard<vrf::mutex_t> l2(b);
                }
            });
            R.run();
        } else if (mode == "lost_update") {  // unprotected read-modify-write
            vrf::mutex_t m;
            Cell c(true);
            for (int t = 0; t < 3; t++)
                R.spawn([&, t] {
                    for (int i = 0; i < 2; i++) {
                        if (buggy && t == 2) {
                            Win w(c, true);
                            c.append_raw(static_cast<uint32_t>(t * 10 + i + 1));
                        } else {
                            std::lock_guard<vrf::mutex_t> l(m);
                            Win w(c, true);
                            c.append_raw(static_cast<uint32_t>(t * 10 + i + 1));
                        }
                    }
                });
            R.run();
            if (c.n != 6) vrf::violation("oracle:lost_update", "{}");
        } else if (mode == "lost_wakeup") {  // flag set and notified outside the mutex
            vrf::mutex_t m;
            std::verif_condition_variable cv;
            std::verif_atomic<bool> ready{false};
            R.spawn([&] {
                std::unique_lock<vrf::mutex_t> l(m);
                while (!ready.load()) cv.wait(l);
            });
            R.spawn([&] {
                if (buggy) {
                    ready.store(true);
                    cv.notify_all();
                } else {
                    std::lock_guard<vrf::mutex_t> l(m);
                    ready.store(true);
                    cv.notify_all();
                }
            });
            R.run();
        } else if (mode == "dekker") {  // store-buffering: both flags weakened to release/acquire in the buggy twin
            std::verif_atomic<int> x{0}, y{0};
            Cell shared(true);
            auto side = [&](std::verif_atomic<int>& mine, std::verif_atomic<int>& other, uint32_t id) {
                if (buggy) {
                    mine.store(1, std::memory_order_release);
                    if (other.load(std::memory_order_acquire) == 0) {
                        Win w(shared, true);
                        shared.append_raw(id);
                    }
                } else {
                    mine.store(1);
                    if (other.load() == 0) {
                        Win w(shared, true);
                        shared.append_raw(id);
                    }
                }
            };
            R.spawn([&] { side(x, y, 1); });
            R.spawn([&] { side(y, x, 2); });
            R.run();
            if (shared.n > 1) vrf::violation("oracle:both_entered_the_critical_section", "{}");
        } else vrf::harness_error("unknown toy");
        vrf::note(vrf::mixhash(R.sched_sig, static_cast<uint64_t>(r)), true);
    }
    vrf::finish();
}
