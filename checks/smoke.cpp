#include "all_headers.hpp"
#include "vrf.hpp"
using namespace gmlc::libguarded;
using namespace gmlc::concurrency;
int main(int argc, char** argv)
{
    vrf::init(argc, argv, "SMOKE");
    for (long r = 0; r < vrf::cfg.rounds; r++) {
        vrf::Round R(r);
        guarded<vrf::Cell, vrf::timed_mutex_t> g(true);
        Latch L(2);
        lr_guarded<vrf::Cell> lr;
        std::atomic<int> total{0};
        for (int t = 0; t < 3; t++) {
            R.spawn([&, t] {
                for (int i = 0; i < 3; i++) {
                    auto h = g.lock();
                    vrf::Win w(*h, true);
                    h->append_raw(static_cast<uint32_t>(t * 100 + i));
                }
                if (t < 2) L.arrive(); else L.wait();
                lr.modify([&](vrf::Cell& c) { vrf::Win w(c, true); c.append_raw(static_cast<uint32_t>(t)); });
                auto sh = lr.lock_shared();
                vrf::Win w(*sh, false);
                sh->check("lr");
                total += static_cast<int>(sh->n);
            });
        }
        R.run();
        if (g.lock()->n != 9) vrf::violation("oracle:lost_update", "{}");
        vrf::note(R.sched_sig, true);
    }
    vrf::finish();
}
