// vrf.hpp — harness-side API (DESIGN.md 3.2-3.8, Appendix A.2).  Included AFTER the
// library headers; removes the token rewrite so that harness code is ordinary C++.
#pragma once
#undef atomic
#undef atomic_bool
#undef atomic_int
#undef atomic_uint
#undef atomic_long
#undef atomic_size_t
#undef mutex
#undef timed_mutex
#undef recursive_mutex
#undef recursive_timed_mutex
#undef shared_mutex
#undef shared_timed_mutex
#undef condition_variable
#undef yield
#undef sleep_for
#undef sleep_until

#include <signal.h>
#include <sys/stat.h>
#if VRF_ASAN
#include <sanitizer/asan_interface.h>
#include <sanitizer/lsan_interface.h>
#endif

#ifdef VRF_COVERAGE
extern "C" void __gcov_dump(void);
#endif
namespace vrf {
inline int g_heap_fill = 0xA5;  // byte that fresh heap blocks are filled with (non-ASan builds); init(): odd process indices use 0x00

using mutex_t = std::verif_mutex;
using timed_mutex_t = std::verif_timed_mutex;
using shared_mutex_t = std::verif_shared_mutex;
using recursive_mutex_t = std::verif_recursive_mutex;
using recursive_timed_mutex_t = std::verif_recursive_timed_mutex;
using shared_timed_mutex_t = std::verif_shared_timed_mutex;

// ------------------------------------------------------------------ json helpers
inline std::string jesc(const std::string& s)
{
    std::string o;
    for (char ch : s) {
        unsigned char c = static_cast<unsigned char>(ch);
        if (c == '"' || c == '\\') {
            o += '\\';
            o += ch;
        } else if (c == '\n') o += "\\n";
        else if (c < 0x20) {
            char b[8];
            snprintf(b, sizeof b, "\\u%04x", c);
            o += b;
        } else o += ch;
    }
    return o;
}
inline std::string jstr(const std::string& s) { return "\"" + jesc(s) + "\""; }
template<class It, class F>
inline std::string jarr(It b, It e, F f)
{
    std::string o = "[";
    bool first = true;
    for (; b != e; ++b) {
        if (!first) o += ",";
        first = false;
        o += f(*b);
    }
    return o + "]";
}
template<class V>
inline std::string jnums(const V& v)
{
    return jarr(v.begin(), v.end(), [](auto x) { return std::to_string(x); });
}

// ------------------------------------------------------------------ configuration / results
struct Config {
    std::string property = "C00";
    std::string engine = "stress";
    std::string variant = "plain";
    uint64_t seed = 1;
    int proc = 0;
    long rounds = 1000;
    long only_round = -1;
    std::string replay_dir = "/verif/replays/tmp";
    std::string mode;  // check-specific sub-mode
    bool tso = false;
    bool stale = false;  // stale-load layer (serial engine only)
    long watchdog_ms = 20000;
    long stall_ms = 4000;
    bool verbose = false;
    std::map<std::string, std::string> extra;
    long geti(const std::string& k, long def) const
    {
        auto it = extra.find(k);
        return it == extra.end() ? def : atol(it->second.c_str());
    }
};
inline Config cfg;

struct Results {
    std::mutex mu;
    long rounds_done = 0;
    std::unordered_set<uint64_t> sigs;       // distinct non-trivial signatures
    std::unordered_set<uint64_t> all_sigs;   // all distinct signatures
    std::map<std::string, uint64_t> counters;
    std::vector<std::string> samples;
    std::map<std::string, uint64_t> inconclusive;
    std::vector<std::pair<std::string, std::pair<uint64_t, uint64_t>>> thresholds;  // name,(count,floor)
    std::string cur_program;  // description of the running round (json)
    long cur_round = -1;
    std::atomic<bool> violated{false};
    std::chrono::steady_clock::time_point t0 = std::chrono::steady_clock::now();
};
inline Results res;

inline void count(const std::string& name, uint64_t n = 1) { res.counters[name] += n; }
inline void note(uint64_t sig, bool nontrivial)
{
    if (res.all_sigs.size() < 200000) res.all_sigs.insert(sig);
    if (nontrivial && res.sigs.size() < 200000) res.sigs.insert(sig);
}
inline void sample(const std::string& json)
{
    if (res.samples.size() < 3) res.samples.push_back(json);
    else if ((res.rounds_done % 997) == 0 && res.samples.size() < 6) res.samples.push_back(json);
}
inline void inconclusive(const std::string& what) { res.inconclusive[what]++; }
inline void threshold(const std::string& name, uint64_t cnt, uint64_t floor_)
{
    res.thresholds.push_back({name, {cnt, floor_}});
}

#if defined(__GNUC__)
__attribute__((no_sanitize("thread")))
#endif
inline ThreadStats total_stats()
{
    std::lock_guard<std::mutex> l(rt.reg_mu);
    ThreadStats r = rt.retired;
    for (auto* c : rt.reg) {
        auto& s = c->st;
        r.hooks += s.hooks; r.lock_calls += s.lock_calls; r.lock_contended += s.lock_contended;
        r.cv_waits += s.cv_waits; r.yields += s.yields; r.atomics += s.atomics;
        r.timed_fail += s.timed_fail; r.spurious += s.spurious; r.injected += s.injected;
        for (int i = 0; i < NKIND; i++) r.kinds[i] += s.kinds[i];
    }
    return r;
}

inline std::string result_json(const std::string& violation_key, const std::string& replay)
{
    std::ostringstream o;
    ThreadStats ts = total_stats();
    double wall = std::chrono::duration<double>(std::chrono::steady_clock::now() - res.t0).count();
    o << "{\"property\":" << jstr(cfg.property) << ",\"engine\":" << jstr(cfg.engine) << ",\"variant\":"
      << jstr(cfg.variant) << ",\"mode\":" << jstr(cfg.mode) << ",\"tso\":" << (cfg.tso ? 1 : 0) << ",\"stale\":" << (cfg.stale ? 1 : 0)
      << ",\"seed\":" << cfg.seed << ",\"proc\":" << cfg.proc << ",\"rounds\":" << res.rounds_done
      << ",\"wall_s\":" << wall << ",\"distinct\":" << res.all_sigs.size() << ",\"nontrivial\":" << res.sigs.size();
    o << ",\"nontrivial_sigs\":[";
    {
        size_t n = 0;
        for (auto s : res.sigs) {
            if (n >= 4000) break;
            if (n++) o << ",";
            o << "\"" << std::hex << s << std::dec << "\"";
        }
    }
    o << "],\"counters\":{";
    bool first = true;
    for (auto& kv : res.counters) {
        if (!first) o << ",";
        first = false;
        o << jstr(kv.first) << ":" << kv.second;
    }
    o << "},\"hooks\":{";
    for (int i = 0; i < NKIND; i++) {
        if (i) o << ",";
        o << jstr(kind_name(i)) << ":" << ts.kinds[i];
    }
    o << "},\"shim\":{\"lock_calls\":" << ts.lock_calls << ",\"lock_contended\":" << ts.lock_contended
      << ",\"cv_waits\":" << ts.cv_waits << ",\"yields\":" << ts.yields << ",\"atomics\":" << ts.atomics
      << ",\"try_or_timed_failed\":" << ts.timed_fail << ",\"spurious_wakeups\":" << ts.spurious
      << ",\"delays_injected\":" << ts.injected << ",\"stale_layer_weak_loads\":" << rt.weak_loads << ",\"stale_layer_stale_answers\":" << rt.stale_loads << "}";
    o << ",\"samples\":[";
    for (size_t i = 0; i < res.samples.size(); i++) {
        if (i) o << ",";
        o << res.samples[i];
    }
    o << "],\"inconclusive\":{";
    first = true;
    for (auto& kv : res.inconclusive) {
        if (!first) o << ",";
        first = false;
        o << jstr(kv.first) << ":" << kv.second;
    }
    o << "},\"thresholds\":{";
    first = true;
    for (auto& t : res.thresholds) {
        if (!first) o << ",";
        first = false;
        o << jstr(t.first) << ":[" << t.second.first << "," << t.second.second << "]";
    }
    o << "},\"violations\":[";
    if (!violation_key.empty()) o << "{\"key\":" << jstr(violation_key) << ",\"replay\":" << jstr(replay) << "}";
    o << "]}";
    return o.str();
}

inline std::string argv_line;

// first violation wins; writes the replay file, prints the result line, exits 1
[[noreturn]] inline void violation(const std::string& key, const std::string& detail_json)
{
    bool exp = false;
    if (!res.violated.compare_exchange_strong(exp, true)) {
        for (;;) pause();  // another thread is already reporting
    }
    std::string dir = cfg.replay_dir;
    mkdir(dir.c_str(), 0777);
    std::string safe;
    for (char ch : key) safe += (isalnum(static_cast<unsigned char>(ch)) ? ch : '_');
    if (safe.size() > 60) safe.resize(60);
    std::string path = dir + "/" + cfg.property + "_" + cfg.variant + "_" + cfg.engine + "_s" +
        std::to_string(cfg.seed) + "_p" + std::to_string(cfg.proc) + "_" + safe + ".json";
    FILE* f = fopen(path.c_str(), "w");
    if (f) {
        fprintf(f,
                "{\"property\":%s,\"key\":%s,\"engine\":%s,\"variant\":%s,\"mode\":%s,\"tso\":%d,\"seed\":%llu,\"proc\":%d,"
                "\"round\":%ld,\"program\":%s,\"detail\":%s,\"cmd\":%s}\n",
                jstr(cfg.property).c_str(), jstr(key).c_str(), jstr(cfg.engine).c_str(), jstr(cfg.variant).c_str(),
                jstr(cfg.mode).c_str(), cfg.tso ? 1 : 0, static_cast<unsigned long long>(cfg.seed), cfg.proc,
                res.cur_round, res.cur_program.empty() ? "null" : res.cur_program.c_str(),
                detail_json.empty() ? "null" : detail_json.c_str(),
                jstr(argv_line + " --only-round " + std::to_string(res.cur_round)).c_str());
        fclose(f);
    }
    std::string r = result_json(key, path);
    fprintf(stdout, "\nVRF-RESULT %s\n", r.c_str());
    fflush(stdout);
    _exit(1);
}
inline void violation_cb(const char* key, const std::string& detail) { violation(key, detail); }

// foreign / double unlocks and mutexes destroyed while held, recorded by the shim's shadow lock state
inline void check_shadow()
{
    std::unique_lock<std::mutex> l(rt.err_mu);
    if (!rt.shadow_errors.empty()) {
        std::string d = jarr(rt.shadow_errors.begin(), rt.shadow_errors.end(), [](const std::string& s) { return jstr(s); });
        l.unlock();
        violation("oracle:shadow_lock_state", d);
    }
}

[[noreturn]] inline void finish()
{
    {
        std::lock_guard<std::mutex> l(rt.err_mu);
        if (!rt.shadow_errors.empty()) {
            violation("oracle:shadow_lock_state", jarr(rt.shadow_errors.begin(), rt.shadow_errors.end(),
                                                       [](const std::string& s) { return jstr(s); }));
        }
    }
#if VRF_ASAN
    if (__lsan_do_recoverable_leak_check() != 0) violation("asan:leak", "\"LeakSanitizer reported leaks at the end of the run (see stderr)\"");
#endif
    std::string r = result_json("", "");
    fprintf(stdout, "\nVRF-RESULT %s\n", r.c_str());
    fflush(stdout);
    int rc = 0;
    if (cfg.only_round < 0) {
        for (auto& t : res.thresholds)
            if (t.second.first < t.second.second) {
                fprintf(stderr, "VRF-THRESHOLD-NOT-MET %s %llu < %llu\n", t.first.c_str(),
                        static_cast<unsigned long long>(t.second.first), static_cast<unsigned long long>(t.second.second));
                rc = 2;
            }
    }
    fflush(stderr);
#ifdef VRF_COVERAGE
    __gcov_dump();  // tools/coverage.py builds: _exit skips the atexit handlers that would write the counters
#endif
    _exit(rc);
}

[[noreturn]] inline void stall_exit(const std::string& what)
{
    fprintf(stderr, "VRF-STALL %s round=%ld program=%s\n", what.c_str(), res.cur_round, res.cur_program.c_str());
    fflush(stderr);
    _exit(3);
}

inline void crash_handler(int sig)
{
    // async-signal-unsafe but we are dying anyway; give the driver the round context
    char buf[512];
    int n = snprintf(buf, sizeof buf, "\nVRF-CRASH signal=%d round=%ld seed=%llu proc=%d\n", sig, res.cur_round,
                     static_cast<unsigned long long>(cfg.seed), cfg.proc);
    if (n > 0) (void)!write(2, buf, static_cast<size_t>(n));
    if (!res.cur_program.empty()) {
        (void)!write(2, "VRF-CRASH-PROGRAM ", 18);
        (void)!write(2, res.cur_program.c_str(), res.cur_program.size());
        (void)!write(2, "\n", 1);
    }
    _exit(70);
}

inline void init(int argc, char** argv, const char* property)
{
    cfg.property = property;
    for (int i = 0; i < argc; i++) {
        if (i) argv_line += " ";
        argv_line += argv[i];
    }
    for (int i = 1; i < argc; i++) {
        std::string a = argv[i];
        auto next = [&]() -> std::string {
            if (i + 1 >= argc) harness_error("missing value for " + a);
            return argv[++i];
        };
        if (a == "--engine") cfg.engine = next();
        else if (a == "--variant") cfg.variant = next();
        else if (a == "--seed") cfg.seed = strtoull(next().c_str(), nullptr, 10);
        else if (a == "--proc") cfg.proc = atoi(next().c_str());
        else if (a == "--rounds") cfg.rounds = atol(next().c_str());
        else if (a == "--only-round") cfg.only_round = atol(next().c_str());
        else if (a == "--replay-dir") cfg.replay_dir = next();
        else if (a == "--mode") cfg.mode = next();
        else if (a == "--tso") cfg.tso = atoi(next().c_str()) != 0;
        else if (a == "--stale") cfg.stale = atoi(next().c_str()) != 0;
        else if (a == "--watchdog-ms") cfg.watchdog_ms = atol(next().c_str());
        else if (a == "--stall-ms") cfg.stall_ms = atol(next().c_str());
        else if (a == "-v") cfg.verbose = true;
        else if (a.rfind("--x-", 0) == 0) cfg.extra[a.substr(4)] = next();
        else harness_error("unknown argument " + a);
    }
    rt.on_violation = &violation_cb;
    rt.tso.store(cfg.tso);
    rt.stale = cfg.stale;
    if (cfg.stale && cfg.engine != "serial") harness_error("the stale-load layer needs the serial engine");
    if (cfg.engine == "serial") rt.engine.store(E_SERIAL);
    else if (cfg.engine == "stress") rt.engine.store(E_STRESS);
    else rt.engine.store(E_OFF);  // "seq", "off"
    if (VRF_TSAN && cfg.engine == "serial") harness_error("serial engine is never run under TSan");
#if !VRF_ASAN
    g_heap_fill = (cfg.proc % 2) ? 0x00 : 0xA5;
#endif
    struct sigaction sa;
    memset(&sa, 0, sizeof sa);
    sa.sa_handler = crash_handler;
#if !VRF_ASAN
    sigaction(SIGSEGV, &sa, nullptr);
    sigaction(SIGBUS, &sa, nullptr);
#endif
    sigaction(SIGFPE, &sa, nullptr);
    sigaction(SIGABRT, &sa, nullptr);
}

// per-process random stream: (seed, property, variant, engine, proc)
inline uint64_t base_seed()
{
    uint64_t h = 0xcbf29ce484222325ull;
    auto mixs = [&](const std::string& s) {
        for (char c : s) h = (h ^ static_cast<unsigned char>(c)) * 0x100000001b3ull;
    };
    mixs(cfg.property);
    mixs(cfg.variant);
    mixs(cfg.engine);
    mixs(cfg.mode);
    h = mixhash(h, cfg.seed);
    h = mixhash(h, static_cast<uint64_t>(cfg.proc));
    return h;
}
struct Rng {
    uint64_t s;
    explicit Rng(uint64_t seed): s(seed) {}
    uint64_t next() { return splitmix(s); }
    uint64_t below(uint64_t n) { return n ? next() % n : 0; }
    long range(long lo, long hi) { return lo + static_cast<long>(below(static_cast<uint64_t>(hi - lo + 1))); }
    bool chance(unsigned pct) { return below(100) < pct; }
    template<class V>
    auto& pick(V& v) { return v[below(v.size())]; }
};
inline Rng round_rng(long round) { return Rng(mixhash(base_seed(), static_cast<uint64_t>(round) * 2654435761ull + 17)); }

// ------------------------------------------------------------------ logical clock
inline std::atomic<uint64_t> g_clock{1};
// In plain/ASan builds the stamp is acq_rel: "ret(A) < call(B)" implies a real
// happens-before edge A.ret -> B.call.  In TSan builds it is relaxed and real-time
// oracles must be disabled by the harness (clock_is_sync()).
inline constexpr bool clock_is_sync() { return !VRF_TSAN; }
inline uint64_t now()
{
    sb_flush();
    stale_global_sync(ctx());
#if VRF_TSAN
    return g_clock.fetch_add(1, std::memory_order_relaxed);
#else
    return g_clock.fetch_add(1, std::memory_order_acq_rel);
#endif
}

// ------------------------------------------------------------------ engine-aware harness waits
inline bool in_serial() { return rt.engine.load(std::memory_order_relaxed) == E_SERIAL && ctx().vtid >= 0; }
inline void hyield()
{
    ThreadCtx& c = ctx();
    c.st.hooks++;
    c.st.kinds[H_POINT]++;
    if (!c.sb.empty()) sb_flush(c);
    if (rt.engine.load(std::memory_order_relaxed) == E_SERIAL && c.vtid >= 0) serial_point(c, H_POINT, nullptr);
    else sched_yield();
}
template<class Pred>
inline void spin_until(Pred p)
{
    ThreadCtx& c = ctx();
    if (p()) {
        stale_global_sync(c);
        return;
    }
    c.blocked_kind.store(3, std::memory_order_relaxed);
    unsigned it = 0;
    while (!p()) {
        hyield();
        if (++it > 200 && !in_serial()) {
            struct timespec ts = {0, 20000};
            nanosleep(&ts, nullptr);
        }
    }
    c.blocked_kind.store(0, std::memory_order_relaxed);
    c.progress.fetch_add(1, std::memory_order_relaxed);
    stale_global_sync(c);  // what the harness waited for has happened-before from here on
}
template<class Fut>
inline void wait_ready(Fut& f)
{
    spin_until([&] { return f.wait_for(std::chrono::seconds(0)) == std::future_status::ready; });
}
template<class Fut>
inline bool is_ready(Fut& f)
{
    return f.wait_for(std::chrono::seconds(0)) == std::future_status::ready;
}

// ------------------------------------------------------------------ rounds and the thread pool
struct Pool {
    std::mutex mu;
    std::condition_variable cv, cv_done;
    std::vector<std::thread> th;
    std::function<void()> fn[MAXT];
    uint64_t gen = 0;
    int n = 0;
    int done = 0;
    std::atomic<int> arrived{0};
    bool serial = false;
    uint64_t seeds[MAXT];
    uint32_t inj_p = 0;
    int stall_thread = -1;
    uint64_t stall_at = 0;
    uint32_t stall_us = 0;
    std::atomic<ThreadCtx*> ctxs[MAXT];
    std::atomic<int> finished[MAXT];

    void worker(int i)
    {
        ThreadCtx& c = ctx();
        ctxs[i].store(&c);
        uint64_t seen = 0;
        for (;;) {
            {
                std::unique_lock<std::mutex> l(mu);
                cv.wait(l, [&] { return gen != seen; });
                seen = gen;
                if (i >= n) continue;
            }
            c.vtid = i;
            c.rng = seeds[i];
            c.held.clear();
            if (serial) {
                serial_thread_begin(i);
            } else {
                c.inj_p = inj_p;
                c.stall_at = (i == stall_thread) ? c.st.hooks + stall_at : 0;
                c.stall_us = stall_us;
                arrived.fetch_add(1, std::memory_order_acq_rel);
                for (unsigned sp = 0; arrived.load(std::memory_order_acquire) < n; sp++) {
                    if (sp < 2000) cpu_relax();
                    else sched_yield();
                }
            }
            try {
                fn[i]();
            }
            catch (const Injected& e) {
                violation("crash:uncaught_injected_exception", "{\"site\":" + std::to_string(e.site) + "}");
            }
            catch (const std::exception& e) {
                violation(std::string("crash:uncaught_exception"), jstr(e.what()));
            }
            catch (...) {
                violation("crash:uncaught_exception", "\"unknown\"");
            }
            sb_flush(c);
            c.inj_p = 0;
            c.stall_at = 0;
            if (serial) {
                // leave the scheduler before touching pool state (other vthreads may still run)
                c.vtid = -1;
                finished[i].store(1, std::memory_order_release);
                serial_thread_end(i);
            } else {
                c.vtid = -1;
                finished[i].store(1, std::memory_order_release);
            }
            {
                std::lock_guard<std::mutex> l(mu);
                done++;
                cv_done.notify_all();
            }
        }
    }
    void ensure(int k)
    {
        while (static_cast<int>(th.size()) < k) {
            int i = static_cast<int>(th.size());
            th.emplace_back([this, i] { worker(i); });
            th.back().detach();
        }
    }
};
inline Pool pool;

struct Round {
    long index;
    Rng rng;
    std::vector<std::function<void()>> fns;
    uint64_t sched_sig = 0;
    uint64_t steps = 0;
    // serial options
    int freeze_tid = -1;
    uint64_t freeze_at = 0;
    int force_strategy = -1;

    explicit Round(long idx): index(idx), rng(round_rng(idx))
    {
        res.cur_round = idx;
    }
    void program(const std::string& json) { res.cur_program = json; }
    template<class F>
    int spawn(F&& f)
    {
        fns.emplace_back(std::forward<F>(f));
        return static_cast<int>(fns.size()) - 1;
    }
    std::vector<uint64_t> own_steps;

    void run()
    {
        int n = static_cast<int>(fns.size());
        if (n == 0) return;
        if (n > MAXT) harness_error("too many vthreads");
        int eng = rt.engine.load();
        if (eng == E_OFF) {  // sequential: run the bodies one after another on this thread
            for (auto& f : fns) f();
            res.rounds_done++;
            return;
        }
        pool.ensure(n);
        Rng r2(rng.next());
        {
            std::lock_guard<std::mutex> l(pool.mu);
            pool.n = n;
            pool.done = 0;
            pool.arrived.store(0);
            pool.serial = (eng == E_SERIAL);
            for (int i = 0; i < n; i++) {
                pool.fn[i] = fns[static_cast<size_t>(i)];
                pool.seeds[i] = r2.next();
                pool.finished[i].store(0);
            }
            if (eng == E_STRESS) {
                static const uint32_t ps[] = {0, 2, 3, 4, 8, 16, 64};
                pool.inj_p = ps[r2.below(7)];
                if (VRF_TSAN && pool.inj_p && pool.inj_p < 4) pool.inj_p = 4;
                pool.stall_thread = r2.chance(60) ? static_cast<int>(r2.below(static_cast<uint64_t>(n))) : -1;
                pool.stall_at = 1 + r2.below(60);
                pool.stall_us = static_cast<uint32_t>(200 + r2.below(1800));
            } else {
                // serial scheduler initialisation
                rt.sn = n;
                rt.scur = -1;
                rt.srng = r2.next();
                rt.ssteps = 0;
                rt.ndone = 0;
                rt.sig = 1469598103934665603ull;
                rt.decisions = 0;
                rt.round_over = false;
                rt.lowprio = 0;
                rt.frozen = false;
                rt.freeze_tid = freeze_tid;
                rt.freeze_at = freeze_at;
                rt.freeze_armed = false;
                rt.freeze_span = 0;
                rt.freeze_happened = false;
                if (rt.stale) stale_reset_round();
                rt.timeouts_fired = false;
                int strat = force_strategy >= 0 ? force_strategy : static_cast<int>(r2.below(2));
                rt.strategy = strat;
                static const uint32_t pw[] = {5, 15, 40, 80};
                rt.p_switch = pw[r2.below(4)];
                rt.change_points.clear();
                if (strat == 1) {
                    int d = static_cast<int>(r2.below(4));  // 0..3 change points
                    for (int i = 0; i < d; i++) rt.change_points.push_back(1 + r2.below(rt.est_steps + 1));
                    std::sort(rt.change_points.begin(), rt.change_points.end(), std::greater<uint64_t>());
                }
                // random distinct priorities
                int perm[MAXT];
                for (int i = 0; i < n; i++) perm[i] = i;
                for (int i = n - 1; i > 0; i--) std::swap(perm[i], perm[r2.below(static_cast<uint64_t>(i) + 1)]);
                for (int i = 0; i < n; i++) {
                    auto& t = rt.sth[i];
                    t.turn.store(0);
                    t.st = SThread::RUN;
                    t.obj = nullptr;
                    t.timed = t.timedout = t.notified = false;
                    t.prio = 10 + perm[i];
                    t.own_steps = 0;
                    t.where = "";
                }
            }
            pool.gen++;
            pool.cv.notify_all();
        }
        if (eng == E_SERIAL) {
            int first = serial_choose(-1, false);
            serial_grant(first);
            std::unique_lock<std::mutex> l(rt.ctl_mu);
            if (!rt.ctl_cv.wait_for(l, std::chrono::milliseconds(cfg.watchdog_ms * 3), [] { return rt.round_over; })) {
                stall_exit("serial round exceeded the wall-clock watchdog");
            }
        }
        // wait for the workers (stress: with the watchdog)
        {
            std::unique_lock<std::mutex> l(pool.mu);
            auto t_start = std::chrono::steady_clock::now();
            uint64_t last_prog = ~0ull;
            auto last_change = t_start;
            while (pool.done < n) {
                if (pool.cv_done.wait_for(l, std::chrono::milliseconds(100), [&] { return pool.done >= n; })) break;
                auto nowt = std::chrono::steady_clock::now();
                uint64_t prog = 0;
                bool all_blocked = true, any_real_block = false;
                std::string states = "[";
                for (int i = 0; i < n; i++) {
                    ThreadCtx* c = pool.ctxs[i].load();
                    if (!c) {
                        all_blocked = false;
                        continue;
                    }
                    prog += c->progress.load(std::memory_order_relaxed);
                    bool fin = pool.finished[i].load(std::memory_order_acquire) != 0;
                    int bk = c->blocked_kind.load(std::memory_order_relaxed);
                    if (!fin) {
                        if (bk == 0) all_blocked = false;
                        if (bk == 1 || bk == 2) any_real_block = true;
                    }
                    if (i) states += ",";
                    static const char* bn[] = {"running", "blocked_in_mutex_lock", "blocked_in_cv_wait", "harness_wait"};
                    states += std::string("{\"t\":") + std::to_string(i) + ",\"state\":\"" + (fin ? "done" : bn[bk & 3]) + "\"}";
                }
                states += "]";
                if (prog != last_prog) {
                    last_prog = prog;
                    last_change = nowt;
                }
                auto idle = std::chrono::duration_cast<std::chrono::milliseconds>(nowt - last_change).count();
                auto total = std::chrono::duration_cast<std::chrono::milliseconds>(nowt - t_start).count();
                if (idle > cfg.stall_ms && all_blocked && any_real_block) {
                    l.unlock();
                    violation("hang:deadlock", "{\"what\":\"every unfinished thread is blocked and no hook fired for " +
                                  std::to_string(idle) + " ms\",\"threads\":" + states + "}");
                }
                if (total > cfg.watchdog_ms) {
                    l.unlock();
                    stall_exit("round exceeded the wall-clock watchdog; threads=" + states);
                }
            }
        }
        if (eng == E_SERIAL) {
            sched_sig = rt.sig;
            steps = rt.ssteps;
            rt.est_steps = (rt.est_steps * 7 + rt.ssteps) / 8 + 1;
            own_steps.clear();
            for (int i = 0; i < n; i++) own_steps.push_back(rt.sth[i].own_steps);
            if (rt.timeouts_fired) count("serial_rounds_with_timeouts");
            count(rt.strategy == 1 ? "serial_rounds_pct" : "serial_rounds_random");
            count("serial_steps", rt.ssteps);
            count("serial_decisions", rt.decisions);
        }
        res.rounds_done++;
    }
};

// run f as a one-thread round: main-thread epilogues (final reads, no-op modifies, destructors) get the same hang
// detection as the round itself (serial: step budget; stress: watchdog)
template<class F>
inline void run_checked(long idx, F&& f)
{
    Round e(idx);
    e.spawn(std::forward<F>(f));
    long keep = res.rounds_done;
    e.run();
    res.rounds_done = keep;
}

// library spin-yields performed so far by vthread `vtid` of the running round
inline uint64_t yields_of(int vtid)
{
    ThreadCtx* c = pool.ctxs[vtid].load();
    return c ? c->yield_count.load(std::memory_order_relaxed) : 0;
}

inline bool want_round(long r) { return cfg.only_round < 0 || cfg.only_round == r; }

// ------------------------------------------------------------------ payload with access-window monitor
constexpr uint32_t WIN_W = 0x10000u;
constexpr int CELL_CAP = 30;
inline std::atomic<long> g_cell_live{0}, g_cell_ctor{0}, g_cell_dtor{0};

struct WinRef {
    const void* cell;
    int depth;
    bool write;
};
inline thread_local std::vector<WinRef> tl_wins;
inline thread_local int tl_vt_label = 0;  // free label for diagnostics (op id)

struct Cell {
    static constexpr uint32_t MAGIC = 0xC0FFEE11u;
    static constexpr uint32_t DEAD = 0xDEADDEADu;
    uint32_t magic;
    uint32_t n = 0;                 // number of ids (also the "counter")
    uint32_t ids[CELL_CAP] = {};    // append-only log of operation ids
    uint64_t chk = 0;               // checksum over (n, ids)
    bool excl = false;              // contract: any two windows conflict (exclusive wrappers)
    bool frozen = false;            // published immutable snapshot (cow): writes forbidden
    mutable std::atomic<uint32_t> win{0};
    mutable std::atomic<int> last_label{0};

    static uint64_t fold(uint64_t h, uint32_t id) { return (h ^ id) * 0x100000001b3ull + 0x9e37; }

    Cell(): magic(MAGIC) { born(); }
    explicit Cell(bool exclusive): magic(MAGIC), excl(exclusive) { born(); }
    Cell(const Cell& o): magic(MAGIC)
    {
        try {
            maybe_throw(1);  // before anything is counted: an object whose constructor throws never existed
        }
        catch (...) {
            magic = DEAD;  // ... and its storage holds no object (it may have held one that was destroyed to make room)
            throw;
        }
        born();
        o.enter(false);
        copy_from(o);
        o.exit(false);
    }
    Cell& operator=(const Cell& o)
    {
        if (&o == this) return *this;
        maybe_throw(2);
        alive_check("assign-dst");
        enter(true);
        o.enter(false);
        copy_from(o);
        o.exit(false);
        exit(true);
        return *this;
    }
    // moving takes the data away: the source is left empty (valid, like a moved-from string), and being moved from is a write
    // access to the source. A library that forwards or moves one value into two places leaves the second one empty.
    Cell(Cell&& o) noexcept: magic(MAGIC)
    {
        born();
        o.enter(true);
        copy_from(o);
        o.gut();
        o.exit(true);
    }
    Cell& operator=(Cell&& o) noexcept
    {
        if (&o == this) return *this;
        alive_check("move-assign-dst");
        enter(true);
        o.enter(true);
        copy_from(o);
        o.gut();
        o.exit(true);
        exit(true);
        return *this;
    }
    void gut()
    {
        n = 0;
        user_point();
        for (auto& i : ids) i = 0;
        chk = 0;
    }
    ~Cell()
    {
        if (magic != MAGIC) raise_violation("oracle:payload_destroyed_twice_or_corrupt", "{}");
        uint32_t w = win.load(std::memory_order_relaxed);
        if (w != 0) raise_violation("oracle:payload_destroyed_while_accessed", "{\"window\":" + std::to_string(w) + "}");
        magic = DEAD;
        g_cell_live.fetch_sub(1, std::memory_order_relaxed);
        g_cell_dtor.fetch_add(1, std::memory_order_relaxed);
    }
    void born()
    {
        g_cell_live.fetch_add(1, std::memory_order_relaxed);
        g_cell_ctor.fetch_add(1, std::memory_order_relaxed);
    }
    void alive_check(const char* where) const
    {
        if (magic != MAGIC)
            raise_violation("oracle:payload_dead_access", std::string("{\"where\":\"") + where + "\"}");
    }
    // ---- windows
    void enter(bool write) const
    {
        for (auto& w : tl_wins)
            if (w.cell == this) {  // nested access by the same thread: not an overlap
                w.depth++;
                return;
            }
        alive_check("enter");
        if (write && frozen) raise_violation("oracle:write_to_published_snapshot", "{}");
        uint32_t old = win.fetch_add(write ? WIN_W : 1u, std::memory_order_relaxed);
        bool bad = write ? (old != 0) : ((old & ~(WIN_W - 1)) != 0);
        if (excl && old != 0) bad = true;
        if (bad) {
            raise_violation(write ? "oracle:overlap_write" : (excl ? "oracle:overlap_exclusive" : "oracle:overlap_read_during_write"),
                            "{\"window_word_before\":" + std::to_string(old) + ",\"entering\":\"" + (write ? "write" : "read") +
                                "\",\"my_label\":" + std::to_string(tl_vt_label) + ",\"other_label\":" +
                                std::to_string(last_label.load(std::memory_order_relaxed)) + "}");
        }
        last_label.store(tl_vt_label, std::memory_order_relaxed);
        tl_wins.push_back(WinRef{this, 1, write});
    }
    void exit(bool write) const
    {
        for (size_t i = tl_wins.size(); i-- > 0;) {
            if (tl_wins[i].cell == this) {
                if (--tl_wins[i].depth > 0) return;
                bool w = tl_wins[i].write;
                tl_wins.erase(tl_wins.begin() + static_cast<long>(i));
                win.fetch_sub(w ? WIN_W : 1u, std::memory_order_relaxed);
                return;
            }
        }
        (void)write;
        raise_violation("oracle:harness_window_mismatch", "{}");
    }
    // ---- raw data access (caller holds a window or owns the object)
    void copy_from(const Cell& o)
    {
        o.alive_check("copy-src");
        n = o.n;
        user_point();
        for (int i = 0; i < CELL_CAP; i++) {
            ids[i] = o.ids[i];
            if (i == 1 || i == 3) user_point();
        }
        user_point();
        chk = o.chk;
    }
    bool consistent() const
    {
        if (n > CELL_CAP) return false;
        uint64_t h = 0;
        for (uint32_t i = 0; i < n; i++) h = fold(h, ids[i]);
        return h == chk;
    }
    void check(const char* where) const
    {
        alive_check(where);
        if (!consistent()) raise_violation("oracle:torn_payload", std::string("{\"where\":\"") + where + "\",\"n\":" + std::to_string(n) + "}");
    }
    void append_raw(uint32_t id)
    {
        if (n >= CELL_CAP) harness_error("Cell log overflow");
        uint32_t k = n;
        user_point();
        ids[k] = id;
        user_point();
        chk = fold(chk, id);
        user_point();
        n = k + 1;
    }
    void set_raw(uint32_t id)  // overwrite with the single id (register semantics)
    {
        user_point();
        n = 1;
        ids[0] = id;
        user_point();
        chk = fold(0, id);
    }
    std::vector<uint32_t> log() const { return std::vector<uint32_t>(ids, ids + std::min<uint32_t>(n, CELL_CAP)); }
    uint32_t value() const { return n ? ids[0] : 0; }
    bool same_data(const Cell& o) const { return n == o.n && chk == o.chk && std::equal(ids, ids + std::min<uint32_t>(n, CELL_CAP), o.ids); }
    friend bool operator==(const Cell& a, const Cell& b)
    {
        maybe_throw(3);
        a.enter(false);
        if (&a != &b) b.enter(false);
        user_point();
        bool r = a.same_data(b);
        if (&a != &b) b.exit(false);
        a.exit(false);
        return r;
    }
};
static_assert(std::is_copy_constructible<Cell>::value && std::is_copy_assignable<Cell>::value, "Cell");

// a value handed to the library as an lvalue still belongs to the caller afterwards
inline void still_holds(const Cell& v, uint32_t id, const char* op)
{
    if (v.n != 1 || v.ids[0] != id)
        raise_violation("oracle:library_moved_from_an_lvalue_argument", std::string("{\"op\":\"") + op + "\",\"n\":" + std::to_string(v.n) + "}");
}
// Storage for a library object that is deliberately dirty before the constructor runs (a member the constructor forgets
// to initialise keeps the garbage): filled with 0xA5, 0xFF or 0x00 depending on `salt`.
template<class T>
struct Hostile {
    alignas(T) unsigned char buf[sizeof(T)];
    T* p = nullptr;
    explicit Hostile(uint64_t salt)
    {
        static const int fills[] = {0xA5, 0xFF, 0x00};
        std::memset(buf, fills[salt % 3], sizeof buf);
    }
    template<class... A>
    T& emplace(A&&... a)
    {
        p = ::new (static_cast<void*>(buf)) T(std::forward<A>(a)...);
        return *p;
    }
    ~Hostile()
    {
        if (p) p->~T();
    }
    Hostile(const Hostile&) = delete;
    Hostile& operator=(const Hostile&) = delete;
};
// RAII access window opened by harness code while it uses a handle / runs inside a functor
struct Win {
    const Cell& c;
    bool write;
    Win(const Cell& cell, bool w): c(cell), write(w) { c.enter(w); }
    ~Win() { c.exit(write); }
    Win(const Win&) = delete;
};
// A user callable that is sensitive to the value category it is invoked with, like a functor with an &&-qualified operator(),
// std::bind_front, or a lambda that moves a captured payload out: invoked as an rvalue it hands its state over, so it can be
// invoked that way once and not at all afterwards. The library may forward a callable it was given as an rvalue into ONE
// invocation; a second application (lr_guarded's second copy, a retry loop, a later deferred run) must use it as an lvalue.
template<class F>
struct OneShot {
    F f;
    bool spent = false;
    mutable bool stolen = false;  // an object was move-constructed from this one: its state is gone
    explicit OneShot(F fn): f(std::move(fn)) {}
    OneShot(const OneShot& o): f(o.f), spent(o.spent)
    {
        if (o.stolen) violation("oracle:user_callable_copied_after_it_was_moved_from", "{}");
    }
    OneShot(OneShot&& o) noexcept: f(std::move(o.f)), spent(o.spent)
    {
        if (o.stolen) violation("oracle:user_callable_moved_twice", "{}");
        o.stolen = true;
    }
    OneShot& operator=(const OneShot&) = delete;
    void live() const
    {
        if (spent) violation("oracle:user_callable_invoked_again_after_an_rvalue_invocation_consumed_it", "{}");
        if (stolen) violation("oracle:user_callable_invoked_after_it_was_moved_from", "{}");
    }
    // (trailing return types keep the wrapper SFINAE-friendly: is_invocable<OneShot<F>, X> answers what it answers for F)
    template<class... A>
    auto operator()(A&&... a) & -> decltype(std::declval<F&>()(std::forward<A>(a)...))
    {
        live();
        return f(std::forward<A>(a)...);
    }
    template<class... A>
    auto operator()(A&&... a) const& -> decltype(std::declval<const F&>()(std::forward<A>(a)...))
    {
        live();
        return f(std::forward<A>(a)...);
    }
    template<class... A>
    auto operator()(A&&... a) && -> decltype(std::declval<F&>()(std::forward<A>(a)...))
    {
        live();
        spent = true;
        return f(std::forward<A>(a)...);
    }
};
template<class F>
inline OneShot<std::decay_t<F>> one_shot(F&& f)
{
    return OneShot<std::decay_t<F>>(std::forward<F>(f));
}
// after the library was handed an lvalue callable: it must not have consumed it (the caller may use it again)
template<class F>
inline void still_usable(const OneShot<F>& f)
{
    if (f.spent || f.stolen) violation("oracle:library_consumed_a_callable_passed_as_lvalue", "{}");
}

inline Cell make_value(uint32_t id)
{
    Cell c;
    c.set_raw(id);
    return c;
}

// ------------------------------------------------------------------ histories + linearizability (WGL)
struct LinOp {
    int thread = 0;
    int op = 0;
    int64_t a = 0, b = 0;      // arguments
    int64_t r = 0, r2 = 0;     // results
    uint64_t call = 0, ret = ~0ull;  // ret == ~0: open (may or may not have taken effect)
    bool open() const { return ret == ~0ull; }
};
inline std::string linop_json(const LinOp& o, const char* const* names)
{
    return "{\"t\":" + std::to_string(o.thread) + ",\"op\":\"" + names[o.op] + "\",\"a\":" + std::to_string(o.a) + ",\"b\":" +
        std::to_string(o.b) + ",\"r\":" + std::to_string(o.r) + ",\"r2\":" + std::to_string(o.r2) + ",\"call\":" +
        std::to_string(o.call) + ",\"ret\":" + (o.open() ? std::string("null") : std::to_string(o.ret)) + "}";
}
struct History {
    std::vector<LinOp> ops;
    std::mutex mu;  // only used in non-TSan builds' recorder; harnesses record into per-thread vectors instead
};
enum LinVerdict { LIN_OK, LIN_VIOLATION, LIN_INCONCLUSIVE };
// Model: struct with  using State = <copyable>;  static uint64_t hash(const State&);
//        static void step(const State&, const LinOp&, std::vector<State>& out)
//        -- appends every state the op (with its observed result) may lead to; none: result not allowed here
template<class Model>
inline LinVerdict lin_check(const std::vector<LinOp>& ops, typename Model::State init, uint64_t node_budget = 200000,
                            uint64_t* nodes_out = nullptr)
{
    using State = typename Model::State;
    size_t n = ops.size();
    if (n > 62) return LIN_INCONCLUSIVE;
    uint64_t closed_mask = 0;
    for (size_t i = 0; i < n; i++)
        if (!ops[i].open()) closed_mask |= (1ull << i);
    struct Frame {
        uint64_t mask;
        State st;
        size_t next;
        std::vector<State> succ;
        size_t succ_idx;
        size_t succ_op;
    };
    std::unordered_set<uint64_t> seen;
    std::vector<Frame> stack;
    stack.push_back(Frame{0, init, 0, {}, 0, 0});
    uint64_t nodes = 0;
    while (!stack.empty()) {
        Frame& f = stack.back();
        if ((f.mask & closed_mask) == closed_mask) {
            if (nodes_out) *nodes_out = nodes;
            return LIN_OK;
        }
        bool pushed = false;
        for (;;) {
            if (f.succ_idx < f.succ.size()) {
                State st = std::move(f.succ[f.succ_idx++]);
                uint64_t nm = f.mask | (1ull << f.succ_op);
                uint64_t key = mixhash(nm * 0x9E3779B97F4A7C15ull, Model::hash(st));
                if (!seen.insert(key).second) continue;
                if (++nodes > node_budget) {
                    if (nodes_out) *nodes_out = nodes;
                    return LIN_INCONCLUSIVE;
                }
                stack.push_back(Frame{nm, std::move(st), 0, {}, 0, 0});
                pushed = true;
                break;
            }
            if (f.next >= n) break;
            size_t i = f.next++;
            if (f.mask >> i & 1) continue;
            // minimal return among pending closed ops: an op called after that cannot be next
            uint64_t minret = ~0ull;
            for (size_t j = 0; j < n; j++)
                if (!(f.mask >> j & 1) && ops[j].ret < minret) minret = ops[j].ret;
            if (ops[i].call > minret) continue;
            f.succ.clear();
            f.succ_idx = 0;
            f.succ_op = i;
            Model::step(f.st, ops[i], f.succ);
        }
        if (!pushed) stack.pop_back();
    }
    if (nodes_out) *nodes_out = nodes;
    return LIN_VIOLATION;
}

// ------------------------------------------------------------------ tracking allocator
struct AllocState {
    std::mutex mu;  // real mutex: allocation events are rare and already ordered by the list's own protocol
    struct Blk {
        size_t bytes;
        bool allocated;
        int constructed;  // number of live objects constructed in the block (0/1)
        bool rec = false; // bookkeeping record (constructed from a single pointer argument) rather than an element node
    };
    std::unordered_map<void*, Blk> blocks;
    std::vector<std::pair<void*, size_t>> quarantine;
    bool quarantine_on = true;
    uint64_t allocs = 0, frees = 0, constructs = 0, destroys = 0;
    uint64_t rec_constructs = 0, rec_destroys = 0, node_constructs = 0, node_destroys = 0;
    std::atomic<int>* live_handles = nullptr;       // set by the harness: handles registered and not yet being released
    uint64_t node_destroys_with_live_handle = 0;    // reclamation while another handle is alive (the non-trivial case)
    std::atomic<uint64_t> frees_with_live_handle{0};

    std::atomic<long> fail_countdown{0};  // > 0: the k-th allocation *of thread fail_uid* from now throws std::bad_alloc
    std::atomic<int> fail_uid{0};
    std::atomic<uint64_t> alloc_failures{0};
    void* allocate(size_t bytes)
    {
        if (fail_countdown.load(std::memory_order_relaxed) > 0 && fail_uid.load(std::memory_order_relaxed) == ctx().uid &&
            fail_countdown.fetch_sub(1, std::memory_order_relaxed) == 1) {
            alloc_failures.fetch_add(1, std::memory_order_relaxed);
            throw std::bad_alloc();
        }
        void* p = ::operator new(bytes);
        std::lock_guard<std::mutex> l(mu);
        blocks[p] = Blk{bytes, true, 0};
        allocs++;
        return p;
    }
    void deallocate(void* p, size_t bytes)
    {
        std::unique_lock<std::mutex> l(mu);
        if (p == nullptr) {
            l.unlock();
            violation("oracle:alloc_deallocate_null", "{}");
        }
        auto it = blocks.find(p);
        if (it == blocks.end() || !it->second.allocated) {
            l.unlock();
            violation(it == blocks.end() ? "oracle:alloc_deallocate_unknown" : "oracle:alloc_double_free", "{}");
        }
        if (it->second.constructed != 0) {
            l.unlock();
            violation("oracle:alloc_deallocate_live_object", "{}");
        }
        if (it->second.bytes != bytes) {
            l.unlock();
            violation("oracle:alloc_size_mismatch", "{}");
        }
        frees++;
        if (quarantine_on) {
            it->second.allocated = false;
            quarantine.push_back({p, bytes});
            memset(p, 0xDD, bytes);
#if VRF_ASAN
            __asan_poison_memory_region(p, bytes);
#endif
        } else {
            blocks.erase(it);
            l.unlock();
            ::operator delete(p);
        }
    }
    void on_construct(void* p, bool rec = false)
    {
        std::unique_lock<std::mutex> l(mu);
        auto it = blocks.find(p);
        if (it == blocks.end() || !it->second.allocated) {
            l.unlock();
            violation("oracle:alloc_construct_outside_block", "{}");
        }
        if (it->second.constructed != 0) {
            l.unlock();
            violation("oracle:alloc_construct_over_live", "{}");
        }
        it->second.constructed = 1;
        it->second.rec = rec;
        constructs++;
        (rec ? rec_constructs : node_constructs)++;
    }
    void on_destroy(void* p)
    {
        std::unique_lock<std::mutex> l(mu);
        if (p == nullptr) {
            l.unlock();
            violation("oracle:alloc_destroy_null", "{}");
        }
        auto it = blocks.find(p);
        if (it == blocks.end() || !it->second.allocated) {
            l.unlock();
            violation("oracle:alloc_destroy_freed_or_unknown", "{}");
        }
        if (it->second.constructed != 1) {
            l.unlock();
            violation("oracle:alloc_destroy_not_live", "{}");
        }
        it->second.constructed = 0;
        bool rec = it->second.rec;
        destroys++;
        (rec ? rec_destroys : node_destroys)++;
        if (!rec && live_handles && live_handles->load(std::memory_order_relaxed) > 0) node_destroys_with_live_handle++;
    }
    size_t live_blocks()
    {
        std::lock_guard<std::mutex> l(mu);
        size_t k = 0;
        for (auto& b : blocks)
            if (b.second.allocated) k++;
        return k;
    }
    size_t live_objects()
    {
        std::lock_guard<std::mutex> l(mu);
        size_t k = 0;
        for (auto& b : blocks)
            if (b.second.allocated && b.second.constructed) k++;
        return k;
    }
    // end of round: give the quarantined memory back. drop_leaked: also release blocks the list never freed (only used
    // after rounds with injected allocator failures, where leak accounting is deliberately not judged)
    void reset(bool drop_leaked = false)
    {
        std::lock_guard<std::mutex> l(mu);
        if (drop_leaked) {
            for (auto it = blocks.begin(); it != blocks.end();) {
                if (it->second.allocated) {
                    ::operator delete(it->first);
                    it = blocks.erase(it);
                } else ++it;
            }
        }
        for (auto& q : quarantine) {
#if VRF_ASAN
            __asan_unpoison_memory_region(q.first, q.second);
#endif
            ::operator delete(q.first);
        }
        quarantine.clear();
        for (auto it = blocks.begin(); it != blocks.end();) {
            if (!it->second.allocated) it = blocks.erase(it);
            else ++it;
        }
    }
};

template<class T>
struct TrackAlloc {
    using value_type = T;
    AllocState* st;
    explicit TrackAlloc(AllocState* s) noexcept: st(s) {}
    template<class U>
    TrackAlloc(const TrackAlloc<U>& o) noexcept: st(o.st) {}
    T* allocate(size_t n) { return static_cast<T*>(st->allocate(n * sizeof(T))); }
    void deallocate(T* p, size_t n) { st->deallocate(p, n * sizeof(T)); }
    template<class U, class... A>
    void construct(U* p, A&&... a)
    {
        ::new (static_cast<void*>(p)) U(std::forward<A>(a)...);
        // the list's log records are built from one pointer (the erased node or the registering guard); element nodes are
        // built from element values. (Independent of the library's internal type names.)
        st->on_construct(p, single_pointer_arg<A...>());
    }
    template<class U>
    void destroy(U* p)
    {
        st->on_destroy(p);
        p->~U();
    }
    template<class... A>
    static constexpr bool single_pointer_arg()
    {
        if constexpr (sizeof...(A) == 1) return (std::is_pointer<std::decay_t<A>>::value && ...);
        else return false;
    }
    template<class U>
    bool operator==(const TrackAlloc<U>& o) const { return st == o.st; }
    template<class U>
    bool operator!=(const TrackAlloc<U>& o) const { return st != o.st; }
};

}  // namespace vrf

// Hostile heap for the builds without AddressSanitizer (which has its own 0xbe fill): fresh blocks are filled with 0xA5 and
// released ones with 0xDD, so that a member the library forgot to initialise, or a read through a dangling pointer, meets
// garbage instead of the zeroes a fresh process usually hands out. (Automatic objects get -ftrivial-auto-var-init=pattern.)
#if !VRF_ASAN
#include <malloc.h>
namespace vrf {
// failpoint: the n-th `operator new` of this thread from now on throws bad_alloc (0 = off); new_faults counts the firings
inline thread_local long tl_new_fail_countdown = 0;
inline thread_local long tl_new_faults = 0;
}  // namespace vrf
void* operator new(std::size_t n)
{
    if (vrf::tl_new_fail_countdown > 0 && --vrf::tl_new_fail_countdown == 0) {
        vrf::tl_new_faults++;
        throw std::bad_alloc();
    }
    void* p = std::malloc(n ? n : 1);
    if (p == nullptr) throw std::bad_alloc();
    std::memset(p, vrf::g_heap_fill, n);
    return p;
}
void operator delete(void* p) noexcept
{
    if (p == nullptr) return;
    std::memset(p, 0xDD, malloc_usable_size(p));
    std::free(p);
}
void operator delete(void* p, std::size_t) noexcept { ::operator delete(p); }
#endif

#if VRF_ASAN
extern "C" void __asan_on_error()
{
    char buf[256];
    int n = snprintf(buf, sizeof buf, "\nVRF-CRASH asan round=%ld seed=%llu proc=%d\n", vrf::res.cur_round,
                     static_cast<unsigned long long>(vrf::cfg.seed), vrf::cfg.proc);
    if (n > 0) (void)!write(2, buf, static_cast<size_t>(n));
    if (!vrf::res.cur_program.empty()) {
        (void)!write(2, "VRF-CRASH-PROGRAM ", 18);
        (void)!write(2, vrf::res.cur_program.c_str(), vrf::res.cur_program.size());
        (void)!write(2, "\n", 1);
    }
}
#endif
