// vshim.hpp — token shim + execution engines (DESIGN.md 3.1, 3.2).
//
// Force-included (-include) before any library header, together with
// -DGMLC_TDC_CONCURRENCY_VERIF.  It
//   1. includes every standard header (so their include guards are set),
//   2. defines the runtime (engines, shadow lock state, counters) and the wrapper
//      types std::verif_atomic / verif_mutex / ... that forward to the real
//      primitives and call the runtime around every operation,
//   3. defines object-like macros (atomic, mutex, ...) so that the *library's own
//      text* is rewritten to use the wrappers.
// After the library headers the harness includes vrf.hpp, which #undef's the
// macros again.
#pragma once
#ifndef GMLC_TDC_CONCURRENCY_VERIF
#error "vshim.hpp requires -DGMLC_TDC_CONCURRENCY_VERIF"
#endif
#include <bits/stdc++.h>
#include <shared_mutex>
#include <linux/futex.h>
#include <sys/syscall.h>
#include <unistd.h>
#include <time.h>

#if defined(__SANITIZE_THREAD__)
#define VRF_TSAN 1
#elif defined(__has_feature)
#if __has_feature(thread_sanitizer)
#define VRF_TSAN 1
#endif
#endif
#ifndef VRF_TSAN
#define VRF_TSAN 0
#endif
#if defined(__SANITIZE_ADDRESS__)
#define VRF_ASAN 1
#elif defined(__has_feature)
#if __has_feature(address_sanitizer)
#define VRF_ASAN 1
#endif
#endif
#ifndef VRF_ASAN
#define VRF_ASAN 0
#endif

namespace vrf {

enum Kind : uint8_t {
    A_LOAD, A_STORE, A_RMW, A_CAS,
    M_LOCK, M_TRY, M_TIMED, M_UNLOCK, M_LOCK_SH, M_TRY_SH, M_TIMED_SH, M_UNLOCK_SH,
    CV_WAIT, CV_NOTIFY_ONE, CV_NOTIFY_ALL,
    T_YIELD, T_SLEEP, U_POINT, H_POINT, NKIND
};
inline const char* kind_name(int k)
{
    static const char* n[] = {"a_load", "a_store", "a_rmw", "a_cas", "m_lock", "m_try", "m_timed",
                              "m_unlock", "m_lock_sh", "m_try_sh", "m_timed_sh", "m_unlock_sh",
                              "cv_wait", "cv_notify_one", "cv_notify_all", "t_yield", "t_sleep",
                              "u_point", "h_point"};
    return (k >= 0 && k < NKIND) ? n[k] : "?";
}

enum Engine { E_OFF = 0, E_STRESS = 1, E_SERIAL = 2 };
enum LockMode { LM_BLOCK, LM_TRY, LM_TIMED };

struct ThreadStats {
    uint64_t hooks = 0, lock_calls = 0, lock_contended = 0, cv_waits = 0, yields = 0, atomics = 0,
             timed_fail = 0, spurious = 0, injected = 0,
             block_waits = 0;  // untimed blocking waits: contended blocking lock acquisitions + untimed condition waits
    uint64_t kinds[NKIND] = {};
};

struct Held {
    const void* m;
    bool shared;
};

constexpr int MAXT = 8;

struct ThreadCtx {
    int uid = 0;    // process-unique id (>0), shadow owner id
    int vtid = -1;  // index inside the running round, -1: not a vthread
    uint64_t rng = 0x9E3779B97F4A7C15ull;
    ThreadStats st;
    std::vector<Held> held;
    // stress: blocked state sampled by the watchdog
    std::atomic<const void*> blocked_on{nullptr};
    std::atomic<int> blocked_kind{0};  // 0 none, 1 mutex, 2 cv, 3 harness spin
    std::atomic<uint64_t> progress{0};
    std::atomic<uint64_t> yield_count{0};  // library spin-yields of this thread (readable by other threads)
    // stress injection parameters of the current round
    uint32_t inj_p = 0;  // 0: no injection, else probability 1/inj_p
    uint64_t stall_at = 0;
    uint32_t stall_us = 0;
    // TSO store buffer
    struct SbEnt {
        void* addr;
        uint64_t val;
        void (*apply)(void*, uint64_t);
        int ttl;
    };
    std::vector<SbEnt> sb;
    uint64_t last_lock_seq = 0;           // global sequence number of this thread's latest mutex acquisition (taken inside the critical section)
    int64_t max_timed_request_ns = 0;     // longest time-out a timed lock operation was asked to wait for (harness clears it)
    int64_t last_timed_request_ns = 0;    // the time-out of the timed lock operation in progress
    uint64_t forced_cv_timeouts = 0;      // serial engine: timed condition waits of this thread that ended only because nothing else could run
    int64_t timed_out_total_ns = 0;       // sum of the time-outs of the timed lock operations that gave up (each waited its full time-out)
    std::vector<const void*> block_objs;  // mutexes / condvars this thread performed an untimed blocking wait on (harness clears it)
    // fault injection (per thread): the k-th call of maybe_throw() at an enabled site throws
    long throw_at = 0;
    long throw_calls = 0;
    long throws_done = 0;
    uint32_t throw_mask = 0;
    bool throw_std_flavour = false;
    bool throw_twice = false;
};

struct Injected {  // the exception thrown by the fault engine
    int site;
    long k;
};
// second flavour: the same fault delivered as an exception derived from std::exception (handlers that discriminate on the
// exception's type must behave the same for both)
struct InjectedStd: public std::runtime_error, public Injected {
    InjectedStd(int s, long kk): std::runtime_error("vrf injected fault"), Injected{s, kk} {}
};

// ------------------------------------------------------------------ runtime
struct SThread {
    std::atomic<uint32_t> turn{0};
    enum St : int { NOTSTARTED, RUN, BLK_MUTEX, BLK_CV, FROZEN, DONE };
    int st = NOTSTARTED;
    const void* obj = nullptr;
    bool timed = false, timedout = false, notified = false;
    bool forced_timeout = false;  // the time-out was fired because nothing else could run (not by the 4 % dice)
    long prio = 0;
    uint64_t own_steps = 0;
    uint64_t spin = 0;  // consecutive yields without other progress
    const char* where = "";
};

struct Runtime {
    std::atomic<int> engine{E_OFF};
    std::atomic<int> next_uid{1};
    std::atomic<bool> tso{false};
    int tso_maxttl = 12;
    // registry of thread contexts (for statistics and the watchdog)
    std::mutex reg_mu;
    std::vector<ThreadCtx*> reg;
    ThreadStats retired;  // stats of threads that exited
    // shadow errors
    std::mutex err_mu;
    std::vector<std::string> shadow_errors;
    std::atomic<int> global_held{0};
    std::atomic<uint64_t> lock_seq{0};   // acquisitions of one mutex get increasing numbers (incremented while the lock is held)
    // ---- serial scheduler (touched only by the token holder / controller)
    int sn = 0;
    SThread sth[MAXT];
    int scur = -1;
    uint64_t srng = 1;
    int strategy = 0;  // 0 random walk, 1 pct
    uint32_t p_switch = 30;  // percent
    uint64_t ssteps = 0, step_budget = 400000, est_steps = 120;
    std::vector<uint64_t> change_points;
    long lowprio = 0;
    uint64_t sig = 1469598103934665603ull;
    uint64_t decisions = 0;
    int ndone = 0;
    int freeze_tid = -1;
    uint64_t freeze_at = 0;  // freeze when own_steps reaches this (>0)
    bool frozen = false;
    bool freeze_armed = false;       // the designated thread is inside the operation whose steps are enumerated
    uint64_t freeze_span = 0;        // steps the designated thread executed between arm and disarm (dry runs)
    bool freeze_happened = false;
    uint64_t spurious_pct = 1;  // percent of cv waits that return spuriously (serial)
    uint64_t timeout_pct = 4;   // percent of decisions that fire a time-out on a timed waiter
    bool timeouts_fired = false;
    std::mutex ctl_mu;
    std::condition_variable ctl_cv;
    bool round_over = false;
    // ---- stale-load layer (serial engine only; DESIGN.md 3.2): per-location store histories + vector clocks
    bool stale = false;
    struct VC {
        uint32_t c[MAXT] = {};
        void join(const VC& o)
        {
            for (int i = 0; i < MAXT; i++)
                if (o.c[i] > c[i]) c[i] = o.c[i];
        }
    };
    struct StoreRec {
        uint64_t val;
        VC vc;        // clock of the storing thread at the store (event identity: vc.c[tid])
        VC sync;      // what an acquire reader obtains (release sequences are continued by RMWs)
        int tid;      // -1: initial value (happens-before everything)
        bool has_sync;
    };
    struct LocHist {
        std::vector<StoreRec> recs;      // oldest .. newest (bounded)
        uint64_t base = 0;               // absolute index of recs[0]
        uint64_t seen[MAXT] = {};        // absolute index each thread has already observed (coherence)
    };
    std::unordered_map<const void*, LocHist> loc;
    std::unordered_map<const void*, VC> mutex_vc;
    VC tvc[MAXT];
    VC global_vc;
    uint64_t stale_loads = 0, weak_loads = 0;
    // callbacks set by vrf.hpp
    void (*on_violation)(const char* key, const std::string& detail) = nullptr;
};
inline Runtime rt;

inline uint64_t splitmix(uint64_t& s)
{
    uint64_t z = (s += 0x9E3779B97F4A7C15ull);
    z = (z ^ (z >> 30)) * 0xBF58476D1CE4E5B9ull;
    z = (z ^ (z >> 27)) * 0x94D049BB133111EBull;
    return z ^ (z >> 31);
}
inline uint64_t mixhash(uint64_t h, uint64_t v)
{
    h ^= v + 0x9E3779B97F4A7C15ull + (h << 6) + (h >> 2);
    return h * 0x100000001B3ull;
}

struct CtxHolder {
    ThreadCtx c;
    CtxHolder()
    {
        c.uid = rt.next_uid.fetch_add(1, std::memory_order_relaxed);
        std::lock_guard<std::mutex> l(rt.reg_mu);
        rt.reg.push_back(&c);
    }
    ~CtxHolder()
    {
        std::lock_guard<std::mutex> l(rt.reg_mu);
        auto& r = rt.retired;
        auto& s = c.st;
        r.hooks += s.hooks; r.lock_calls += s.lock_calls; r.lock_contended += s.lock_contended;
        r.cv_waits += s.cv_waits; r.yields += s.yields; r.atomics += s.atomics;
        r.timed_fail += s.timed_fail; r.spurious += s.spurious; r.injected += s.injected;
        for (int i = 0; i < NKIND; i++) r.kinds[i] += s.kinds[i];
        rt.reg.erase(std::remove(rt.reg.begin(), rt.reg.end(), &c), rt.reg.end());
    }
};
inline ThreadCtx& ctx()
{
    static thread_local CtxHolder h;
    return h.c;
}
inline const ThreadStats& stats() { return ctx().st; }
inline size_t held_count() { return ctx().held.size(); }
inline bool holds(const void* m)
{
    for (auto& h : ctx().held)
        if (h.m == m) return true;
    return false;
}
inline int global_held_count() { return rt.global_held.load(std::memory_order_relaxed); }

inline void shadow_error(const std::string& s)
{
    std::lock_guard<std::mutex> l(rt.err_mu);
    if (rt.shadow_errors.size() < 64) rt.shadow_errors.push_back(s);
}

[[noreturn]] inline void raise_violation(const char* key, const std::string& detail)
{
    if (rt.on_violation) rt.on_violation(key, detail);
    fprintf(stderr, "VRF-VIOLATION %s %s\n", key, detail.c_str());
    _exit(1);
}
[[noreturn]] inline void harness_error(const std::string& what)
{
    fprintf(stderr, "VRF-HARNESS-ERROR %s\n", what.c_str());
    fflush(stderr);
    _exit(2);
}

// ------------------------------------------------------------------ futex helpers
inline void futex_wait(std::atomic<uint32_t>* a, uint32_t expected)
{
    syscall(SYS_futex, reinterpret_cast<uint32_t*>(a), FUTEX_WAIT_PRIVATE, expected, nullptr, nullptr, 0);
}
inline void futex_wake(std::atomic<uint32_t>* a)
{
    syscall(SYS_futex, reinterpret_cast<uint32_t*>(a), FUTEX_WAKE_PRIVATE, 1, nullptr, nullptr, 0);
}
inline void cpu_relax()
{
#if defined(__x86_64__) || defined(__i386__)
    __builtin_ia32_pause();
#endif
}

// ------------------------------------------------------------------ serial scheduler
inline std::string serial_dump()
{
    std::ostringstream o;
    static const char* sn[] = {"notstarted", "run", "blk_mutex", "blk_cv", "frozen", "done"};
    o << "[";
    for (int i = 0; i < rt.sn; i++) {
        auto& t = rt.sth[i];
        if (i) o << ",";
        o << "{\"t\":" << i << ",\"st\":\"" << sn[t.st] << "\",\"timed\":" << (t.timed ? 1 : 0) << ",\"obj\":\""
          << t.obj << "\",\"where\":\"" << t.where << "\",\"steps\":" << t.own_steps << "}";
    }
    o << "]";
    return o.str();
}

inline void serial_wait_turn(int me)
{
    auto& t = rt.sth[me];
    for (int i = 0; i < 64; i++) {
        if (t.turn.load(std::memory_order_acquire) == 1) break;
        cpu_relax();
    }
    while (t.turn.load(std::memory_order_acquire) != 1) futex_wait(&t.turn, 0);
    t.turn.store(0, std::memory_order_relaxed);
}
inline void serial_grant(int next)
{
    rt.scur = next;
    rt.sth[next].turn.store(1, std::memory_order_release);
    futex_wake(&rt.sth[next].turn);
}

// choose the next thread to run; `me` is the caller (or -1), `exclude_me`: the
// caller yielded and prefers anybody else.  Returns -1 if nobody can run.
inline int serial_choose(int me, bool exclude_me)
{
    int cand[MAXT];
    int nc = 0;
    int timed[MAXT];
    int nt = 0;
    for (int i = 0; i < rt.sn; i++) {
        auto& t = rt.sth[i];
        if (t.st == SThread::RUN) cand[nc++] = i;
        else if ((t.st == SThread::BLK_MUTEX || t.st == SThread::BLK_CV) && t.timed) timed[nt++] = i;
    }
    // fire a time-out: always when nothing else can run, otherwise rarely
    if (nt > 0 && (nc == 0 || (splitmix(rt.srng) % 100) < rt.timeout_pct)) {
        int v = timed[splitmix(rt.srng) % nt];
        rt.sth[v].timedout = true;
        rt.sth[v].forced_timeout = (nc == 0);
        rt.sth[v].st = SThread::RUN;
        rt.timeouts_fired = true;
        cand[nc++] = v;
    }
    if (nc == 0) return -1;
    int pick;
    if (rt.strategy == 1) {  // PCT: highest priority
        pick = cand[0];
        for (int i = 1; i < nc; i++)
            if (rt.sth[cand[i]].prio > rt.sth[pick].prio) pick = cand[i];
    } else {
        bool me_cand = false;
        for (int i = 0; i < nc; i++)
            if (cand[i] == me) me_cand = true;
        if (me_cand && !exclude_me && (splitmix(rt.srng) % 100) >= rt.p_switch) {
            pick = me;
        } else {
            if (me_cand && exclude_me && nc > 1) {
                int k = 0;
                for (int i = 0; i < nc; i++)
                    if (cand[i] != me) cand[k++] = cand[i];
                nc = k;
            }
            pick = cand[splitmix(rt.srng) % nc];
        }
    }
    if (nc > 1) {
        rt.sig = mixhash(rt.sig, static_cast<uint64_t>(pick) + 1);
        rt.decisions++;
    }
    return pick;
}

[[noreturn]] inline void serial_deadlock(const char* what)
{
    std::string d = std::string("{\"what\":\"") + what + "\",\"steps\":" + std::to_string(rt.ssteps) +
        ",\"threads\":" + serial_dump() + "}";
    raise_violation(rt.frozen ? "hang:blocked_by_frozen_writer" : "hang:deadlock", d);
}

inline void serial_thaw_if_due()
{
    if (!rt.frozen) return;
    for (int i = 0; i < rt.sn; i++)
        if (i != rt.freeze_tid && rt.sth[i].st != SThread::DONE) return;
    rt.frozen = false;
    rt.sth[rt.freeze_tid].st = SThread::RUN;
}

// hand the token to somebody else (or keep it); caller state already set.
inline void serial_reschedule(int me, bool exclude_me)
{
    int next = serial_choose(me, exclude_me);
    if (next < 0) {
        serial_thaw_if_due();
        next = serial_choose(me, exclude_me);
        if (next < 0) serial_deadlock("no runnable thread");
    }
    if (next != me) {
        serial_grant(next);
        serial_wait_turn(me);
    }
}

inline void serial_point(ThreadCtx& c, Kind k, const void* obj)
{
    int me = c.vtid;
    auto& t = rt.sth[me];
    t.own_steps++;
    rt.ssteps++;
    if (rt.ssteps > rt.step_budget) {
        std::string d = std::string("{\"what\":\"step budget exceeded (livelock)\",\"steps\":") +
            std::to_string(rt.ssteps) + ",\"threads\":" + serial_dump() + "}";
        raise_violation(rt.frozen ? "hang:livelock_with_frozen_writer" : "hang:livelock", d);
    }
    bool yielded = (k == T_YIELD || k == T_SLEEP || k == H_POINT);
    if (rt.strategy == 1) {
        if (yielded) t.prio = --rt.lowprio;
        while (!rt.change_points.empty() && rt.ssteps >= rt.change_points.back()) {
            rt.change_points.pop_back();
            t.prio = --rt.lowprio;
        }
    }
    if (rt.freeze_tid == me && rt.freeze_armed && rt.freeze_at != 0 && t.own_steps == rt.freeze_at && !rt.frozen) {
        bool others = false;
        for (int i = 0; i < rt.sn; i++)
            if (i != me && rt.sth[i].st != SThread::DONE) others = true;
        if (others) {
            rt.frozen = true;
            rt.freeze_happened = true;
            t.st = SThread::FROZEN;
            t.obj = obj;
            t.where = kind_name(k);
            serial_reschedule(me, true);
            return;
        }
    }
    (void)obj;
    serial_reschedule(me, yielded);
}

// freeze engine: the designated thread brackets the operation whose suspension points are enumerated
inline void freeze_arm()
{
    ThreadCtx& c = ctx();
    if (rt.engine.load(std::memory_order_relaxed) != E_SERIAL || c.vtid < 0 || rt.freeze_tid != c.vtid) return;
    rt.sth[c.vtid].own_steps = 0;
    rt.freeze_armed = true;
}
inline void freeze_disarm()
{
    ThreadCtx& c = ctx();
    if (rt.engine.load(std::memory_order_relaxed) != E_SERIAL || c.vtid < 0 || rt.freeze_tid != c.vtid) return;
    rt.freeze_span = rt.sth[c.vtid].own_steps;
    rt.freeze_armed = false;
}

// block the calling vthread (state set by caller) until made runnable again
inline void serial_block(int me) { serial_reschedule(me, true); }

inline void serial_wake_mutex_waiters(const void* m)
{
    for (int i = 0; i < rt.sn; i++) {
        auto& t = rt.sth[i];
        if (t.st == SThread::BLK_MUTEX && t.obj == m) {
            t.st = SThread::RUN;
        }
    }
}

inline void serial_thread_begin(int me) { serial_wait_turn(me); }
inline void serial_thread_end(int me)
{
    rt.sth[me].st = SThread::DONE;
    rt.ndone++;
    if (rt.ndone == rt.sn) {
        std::lock_guard<std::mutex> l(rt.ctl_mu);
        rt.round_over = true;
        rt.ctl_cv.notify_all();
        return;
    }
    int next = serial_choose(me, true);
    if (next < 0) {
        serial_thaw_if_due();
        next = serial_choose(me, true);
        if (next < 0) serial_deadlock("no runnable thread after a thread finished");
    }
    serial_grant(next);
}

// ------------------------------------------------------------------ stress engine
inline void stress_delay(ThreadCtx& c)
{
    uint64_t r = splitmix(c.rng);
    if (c.stall_at && c.st.hooks == c.stall_at) {
        struct timespec ts = {0, static_cast<long>(c.stall_us) * 1000L};
        nanosleep(&ts, nullptr);
        c.st.injected++;
        return;
    }
    if (r % c.inj_p != 0) return;
    c.st.injected++;
    uint64_t sel = (r >> 20) % 100;
    if (sel < 50) {
        sched_yield();
    } else if (sel < 85) {
        int n = static_cast<int>((r >> 32) % 2000);
        for (int i = 0; i < n; i++) cpu_relax();
    } else {
        struct timespec ts = {0, static_cast<long>(1000 + (r >> 32) % 200000)};
        nanosleep(&ts, nullptr);
    }
}

// ------------------------------------------------------------------ TSO store buffer
inline void sb_flush(ThreadCtx& c)
{
    if (c.sb.empty()) return;
    for (auto& e : c.sb) e.apply(e.addr, e.val);
    c.sb.clear();
}
inline void sb_flush() { sb_flush(ctx()); }
inline void sb_tick(ThreadCtx& c)
{
    // oldest first; an entry whose ttl expired drains together with everything older (FIFO)
    size_t drain = 0;
    for (size_t i = 0; i < c.sb.size(); i++) {
        if (--c.sb[i].ttl <= 0) drain = i + 1;
    }
    if (drain) {
        for (size_t i = 0; i < drain; i++) c.sb[i].apply(c.sb[i].addr, c.sb[i].val);
        c.sb.erase(c.sb.begin(), c.sb.begin() + static_cast<long>(drain));
    }
}

// ------------------------------------------------------------------ stale-load layer
// Active only for vthreads of the serial engine when rt.stale is set.  Soundness rule: wherever the engine is unsure it
// ADDS happens-before (harness synchronisation, mutexes, RMWs as full release sequences), so every stale answer it gives
// is an execution the C++ memory model allows for the memory orders written in the source.
inline bool stale_active(const ThreadCtx& c) { return rt.stale && c.vtid >= 0 && rt.engine.load(std::memory_order_relaxed) == E_SERIAL; }
inline void stale_reset_round()
{
    rt.loc.clear();
    rt.mutex_vc.clear();
    for (auto& v : rt.tvc) v = Runtime::VC();
    rt.global_vc = Runtime::VC();
}
inline Runtime::LocHist& stale_hist(const void* a, uint64_t current_raw)
{
    auto it = rt.loc.find(a);
    if (it == rt.loc.end()) {
        Runtime::LocHist h;
        h.recs.push_back(Runtime::StoreRec{current_raw, Runtime::VC(), Runtime::VC(), -1, true});
        it = rt.loc.emplace(a, std::move(h)).first;
    }
    return it->second;
}
inline void stale_forget(const void* a)
{
    if (rt.stale && !rt.loc.empty()) rt.loc.erase(a);
}
// a store / RMW by the running thread has just been performed on the real object
inline void stale_on_store(ThreadCtx& c, const void* a, uint64_t before_raw, uint64_t new_raw, int mo, bool rmw)
{
    int t = c.vtid;
    Runtime::LocHist& h = stale_hist(a, before_raw);
    Runtime::VC& me = rt.tvc[t];
    Runtime::StoreRec& prev = h.recs.back();
    if (rmw) {
        // an RMW reads the newest value; acquire side (conservatively: always) joins what the newest store publishes
        if (prev.has_sync) me.join(prev.sync);
    }
    me.c[t]++;
    Runtime::StoreRec r;
    r.val = new_raw;
    r.vc = me;
    r.tid = t;
    bool release = (mo == static_cast<int>(std::memory_order_release) || mo == static_cast<int>(std::memory_order_acq_rel) ||
                    mo == static_cast<int>(std::memory_order_seq_cst));
    r.has_sync = release || (rmw && prev.has_sync);
    if (release) {
        r.sync = me;
        if (rmw && prev.has_sync) r.sync.join(prev.sync);
    } else if (rmw && prev.has_sync) r.sync = prev.sync;  // continues the release sequence
    h.recs.push_back(r);
    if (h.recs.size() > 12) {
        h.recs.erase(h.recs.begin());
        h.base++;
    }
    h.seen[t] = h.base + h.recs.size() - 1;
}
// which value does a load by the running thread return?  `newest_raw`: what the real object holds
inline uint64_t stale_on_load(ThreadCtx& c, const void* a, uint64_t newest_raw, int mo)
{
    int t = c.vtid;
    Runtime::LocHist& h = stale_hist(a, newest_raw);
    Runtime::VC& me = rt.tvc[t];
    size_t newest = h.recs.size() - 1;
    size_t pick = newest;
    bool weak = (mo != static_cast<int>(std::memory_order_seq_cst));
    if (weak) {
        rt.weak_loads++;
        // oldest store the thread may still read: not older than what it has observed (coherence), and not older than any
        // store that happens-before this load
        size_t lo = 0;
        if (h.seen[t] > h.base) lo = static_cast<size_t>(h.seen[t] - h.base);
        for (size_t j = newest + 1; j-- > lo;) {
            const Runtime::StoreRec& r = h.recs[j];
            bool hb = (r.tid < 0) || (r.tid == t) || (r.vc.c[r.tid] <= me.c[r.tid]);
            if (hb) {
                lo = std::max(lo, j);
                break;
            }
        }
        if (lo < newest) {
            uint64_t rnd = splitmix(rt.srng);
            pick = (rnd & 1) ? lo + (rnd >> 8) % (newest - lo + 1) : newest;
            if (pick != newest) rt.stale_loads++;
        }
    }
    const Runtime::StoreRec& r = h.recs[pick];
    bool acquire = (mo != static_cast<int>(std::memory_order_relaxed));
    if (acquire && r.has_sync) me.join(r.sync);
    h.seen[t] = std::max<uint64_t>(h.seen[t], h.base + pick);
    return r.val;
}
inline void stale_on_lock(ThreadCtx& c, const void* m)
{
    auto it = rt.mutex_vc.find(m);
    if (it != rt.mutex_vc.end()) rt.tvc[c.vtid].join(it->second);
}
inline void stale_on_unlock(ThreadCtx& c, const void* m)
{
    rt.tvc[c.vtid].c[c.vtid]++;
    rt.mutex_vc[m].join(rt.tvc[c.vtid]);
}
// harness-level synchronisation (logical clock stamps, completed harness waits): everything so far happens-before
inline void stale_global_sync(ThreadCtx& c)
{
    if (!stale_active(c)) return;
    Runtime::VC& me = rt.tvc[c.vtid];
    me.join(rt.global_vc);
    me.c[c.vtid]++;
    rt.global_vc.join(me);
}

// ------------------------------------------------------------------ the hook
inline void pre(Kind k, const void* obj, int mo = 5)
{
    (void)mo;
    ThreadCtx& c = ctx();
    c.st.hooks++;
    c.st.kinds[k]++;
    c.progress.store(c.st.hooks, std::memory_order_relaxed);
    if (!c.sb.empty()) {
        if (k >= M_LOCK && k != U_POINT) sb_flush(c);  // locks, cv, yield, sleep, harness points
        else sb_tick(c);
    }
    int e = rt.engine.load(std::memory_order_relaxed);
    if (e == E_SERIAL) {
        if (c.vtid >= 0) serial_point(c, k, obj);
    } else if (e == E_STRESS) {
        if (c.inj_p) stress_delay(c);
    }
}
// A second scheduling / delay point right AFTER release-like operations (unlock, atomic store / RMW / CAS): code that
// follows them may touch state other threads reach through un-hooked means (std::promise, shared_ptr control blocks,
// plain fields), so the window "released ... next hooked operation" must be separable from both sides.
inline void post(Kind k, const void* obj)
{
    ThreadCtx& c = ctx();
    int e = rt.engine.load(std::memory_order_relaxed);
    if (e == E_SERIAL) {
        if (c.vtid >= 0) serial_point(c, k, obj);
    } else if (e == E_STRESS) {
        if (c.inj_p) stress_delay(c);
    }
}
// serial engine: is the virtual thread `vtid` parked in a condition-variable wait right now? (The caller holds the token, so
// the answer stays true until the caller itself reaches a scheduling point.)
inline bool serial_parked_in_cv_wait(int vtid)
{
    return rt.engine.load(std::memory_order_relaxed) == E_SERIAL && vtid >= 0 && vtid < rt.sn && rt.sth[vtid].st == SThread::BLK_CV;
}
inline void user_point() { pre(U_POINT, nullptr); }
inline void harness_point() { pre(H_POINT, nullptr); }

inline void maybe_throw(int site)
{
    ThreadCtx& c = ctx();
    if (!((c.throw_mask >> site) & 1u)) return;
    long n = ++c.throw_calls;
    if (c.throw_at > 0 && (n == c.throw_at || (c.throw_twice && n == c.throw_at + 1))) {
        c.throws_done++;
        if (c.throw_std_flavour) throw InjectedStd(site, n);
        throw Injected{site, n};
    }
}
// twice: the enabled site invoked next after the one that threw throws as well (a double fault: user code that runs inside the
// library's own roll-back fails too)
inline void fault_arm(uint32_t site_mask, long k, bool std_flavour = false, bool twice = false)
{
    ThreadCtx& c = ctx();
    c.throw_std_flavour = std_flavour;
    c.throw_twice = twice;
    c.throw_mask = site_mask;
    c.throw_calls = 0;
    c.throws_done = 0;
    c.throw_at = k;
}
// returns the number of invocations of enabled sites since fault_arm
inline long fault_disarm()
{
    ThreadCtx& c = ctx();
    c.throw_mask = 0;
    c.throw_at = 0;
    return c.throw_calls;
}
inline long fault_throws() { return ctx().throws_done; }

// ------------------------------------------------------------------ mutex core
template<class Real>
class vm_core {
  protected:
    Real real_;
    std::atomic<int> sh_owner_{0};
    std::atomic<int> sh_shared_{0};
    int sh_depth_ = 0;  // recursive mutex types: nesting depth of the owner (touched by the owner only)
    static constexpr bool recursive_ = std::is_same<Real, std::recursive_mutex>::value || std::is_same<Real, std::recursive_timed_mutex>::value;

    vm_core() = default;
    vm_core(const vm_core&) = delete;
    vm_core& operator=(const vm_core&) = delete;
    ~vm_core()
    {
        if (sh_owner_.load(std::memory_order_relaxed) != 0 || sh_shared_.load(std::memory_order_relaxed) != 0)
            shadow_error("mutex destroyed while held");
    }

    void shadow_acquire(ThreadCtx& c, bool shared)
    {
        if (shared) {
            sh_shared_.fetch_add(1, std::memory_order_relaxed);
        } else {
            sh_owner_.store(c.uid, std::memory_order_relaxed);
            if (recursive_) sh_depth_++;
        }
        c.held.push_back(Held{this, shared});
        rt.global_held.fetch_add(1, std::memory_order_relaxed);
        c.last_lock_seq = rt.lock_seq.fetch_add(1, std::memory_order_relaxed) + 1;
        if (stale_active(c)) stale_on_lock(c, this);
    }
    void shadow_release(ThreadCtx& c, bool shared)
    {
        bool found = false;
        for (size_t i = c.held.size(); i-- > 0;) {
            if (c.held[i].m == this && c.held[i].shared == shared) {
                c.held.erase(c.held.begin() + static_cast<long>(i));
                found = true;
                break;
            }
        }
        if (!found) {
            // unlocking a mutex the thread does not hold is undefined for the real primitive: report at once, never perform it
            raise_violation("oracle:shadow_lock_state",
                            shared ? "[\"unlock_shared by a thread that does not hold the mutex shared\"]" :
                                     "[\"unlock by a thread that does not own the mutex (foreign or double unlock)\"]");
        }
        rt.global_held.fetch_sub(1, std::memory_order_relaxed);
        if (stale_active(c)) stale_on_unlock(c, this);
        if (shared) sh_shared_.fetch_sub(1, std::memory_order_relaxed);
        else if (!recursive_ || --sh_depth_ == 0) sh_owner_.store(0, std::memory_order_relaxed);
    }
    bool real_try(bool shared)
    {
        if constexpr (std::is_same<Real, std::shared_mutex>::value || std::is_same<Real, std::shared_timed_mutex>::value) {
            return shared ? real_.try_lock_shared() : real_.try_lock();
        } else {
            return real_.try_lock();
        }
    }
    void real_lock(bool shared)
    {
        if constexpr (std::is_same<Real, std::shared_mutex>::value || std::is_same<Real, std::shared_timed_mutex>::value) {
            if (shared) real_.lock_shared();
            else real_.lock();
        } else {
            real_.lock();
        }
    }
    void real_unlock(bool shared)
    {
        if constexpr (std::is_same<Real, std::shared_mutex>::value || std::is_same<Real, std::shared_timed_mutex>::value) {
            if (shared) real_.unlock_shared();
            else real_.unlock();
        } else {
            real_.unlock();
        }
    }

    // acquire; deadline_ns: absolute CLOCK_MONOTONIC deadline for LM_TIMED (stress/off engines)
    bool acquire(bool shared, LockMode mode, int64_t deadline_ns)
    {
        ThreadCtx& c = ctx();
        Kind k = shared ? (mode == LM_BLOCK ? M_LOCK_SH : mode == LM_TRY ? M_TRY_SH : M_TIMED_SH) :
                          (mode == LM_BLOCK ? M_LOCK : mode == LM_TRY ? M_TRY : M_TIMED);
        c.st.lock_calls++;
        if (rt.engine.load(std::memory_order_relaxed) == E_SERIAL && c.vtid >= 0) {
            bool counted = false, blocked_counted = false;
            for (;;) {
                pre(k, this);
                bool free = shared ? (sh_owner_.load(std::memory_order_relaxed) == 0) :
                                     (sh_owner_.load(std::memory_order_relaxed) == 0 &&
                                      sh_shared_.load(std::memory_order_relaxed) == 0);
                if (recursive_ && !shared && sh_owner_.load(std::memory_order_relaxed) == c.uid) free = true;  // re-entry by the owner
                if (free) {
                    if (!real_try(shared)) harness_error("serial: shadow says free but real try_lock failed");
                    shadow_acquire(c, shared);
                    return true;
                }
                if (!counted) {
                    c.st.lock_contended++;
                    counted = true;
                }
                if (mode == LM_TRY) {
                    c.st.timed_fail++;
                    return false;
                }
                if (mode == LM_BLOCK && !blocked_counted) {
                    c.st.block_waits++;
                    if (c.block_objs.size() < 64) c.block_objs.push_back(this);
                    blocked_counted = true;
                }
                auto& t = rt.sth[c.vtid];
                t.st = SThread::BLK_MUTEX;
                t.obj = this;
                t.timed = (mode == LM_TIMED);
                t.where = kind_name(k);
                serial_block(c.vtid);
                t.timed = false;
                if (t.timedout) {
                    t.timedout = false;
                    c.st.timed_fail++;
                    return false;
                }
            }
        }
        pre(k, this);
        if (real_try(shared)) {
            shadow_acquire(c, shared);
            return true;
        }
        c.st.lock_contended++;
        if (mode == LM_TRY) {
            c.st.timed_fail++;
            return false;
        }
        if (mode == LM_BLOCK) {
            c.st.block_waits++;
            if (c.block_objs.size() < 64) c.block_objs.push_back(this);
            c.blocked_on.store(this, std::memory_order_relaxed);
            c.blocked_kind.store(1, std::memory_order_relaxed);
            real_lock(shared);
            c.blocked_kind.store(0, std::memory_order_relaxed);
            c.blocked_on.store(nullptr, std::memory_order_relaxed);
            shadow_acquire(c, shared);
            return true;
        }
        // timed: poll the (intercepted) try-lock; pthread_*_clocklock is not understood by TSan
        for (unsigned it = 0;; it++) {
            if (real_try(shared)) {
                shadow_acquire(c, shared);
                return true;
            }
            struct timespec now;
            clock_gettime(CLOCK_MONOTONIC, &now);
            int64_t n = static_cast<int64_t>(now.tv_sec) * 1000000000LL + now.tv_nsec;
            if (n >= deadline_ns) {
                c.st.timed_fail++;
                return false;
            }
            if (it < 20) sched_yield();
            else {
                struct timespec ts = {0, 20000};
                nanosleep(&ts, nullptr);
            }
        }
    }
    void release(bool shared)
    {
        ThreadCtx& c = ctx();
        pre(shared ? M_UNLOCK_SH : M_UNLOCK, this);
        shadow_release(c, shared);
        real_unlock(shared);
        if (rt.engine.load(std::memory_order_relaxed) == E_SERIAL && c.vtid >= 0) serial_wake_mutex_waiters(this);
        post(shared ? M_UNLOCK_SH : M_UNLOCK, this);
    }
    // a timed acquisition that gives up has waited for its whole time-out: the harness can add those up per call
    bool timed(bool shared, int64_t deadline)
    {
        int64_t asked = ctx().last_timed_request_ns;
        bool ok = acquire(shared, LM_TIMED, deadline);
        if (!ok) ctx().timed_out_total_ns += asked;
        return ok;
    }
    template<class Rep, class Period>
    static int64_t deadline_from(const std::chrono::duration<Rep, Period>& d)
    {
        struct timespec now;
        clock_gettime(CLOCK_MONOTONIC, &now);
        int64_t n = static_cast<int64_t>(now.tv_sec) * 1000000000LL + now.tv_nsec;
        auto ns = std::chrono::duration_cast<std::chrono::nanoseconds>(d).count();
        if (ns < 0) ns = 0;
        ThreadCtx& c = ctx();
        if (ns > c.max_timed_request_ns) c.max_timed_request_ns = ns;
        c.last_timed_request_ns = ns;
        return n + ns;
    }
    template<class Clock, class Dur>
    static int64_t deadline_from(const std::chrono::time_point<Clock, Dur>& tp)
    {
        return deadline_from(tp - Clock::now());
    }

  public:
    Real& vrf_real() { return real_; }
    int vrf_owner() const { return sh_owner_.load(std::memory_order_relaxed); }
    int vrf_shared_holders() const { return sh_shared_.load(std::memory_order_relaxed); }
    // used by the condition variable wrapper
    void vrf_cv_release(ThreadCtx& c) { shadow_release(c, false); }
    void vrf_cv_reacquire(ThreadCtx& c) { shadow_acquire(c, false); }
    bool vrf_serial_relock()
    {
        return acquire(false, LM_BLOCK, 0);
    }
};
}  // namespace vrf

namespace std {

class verif_mutex: public vrf::vm_core<std::mutex> {
  public:
    void lock() { acquire(false, vrf::LM_BLOCK, 0); }
    bool try_lock() { return acquire(false, vrf::LM_TRY, 0); }
    void unlock() { release(false); }
};
class verif_timed_mutex: public vrf::vm_core<std::timed_mutex> {
  public:
    void lock() { acquire(false, vrf::LM_BLOCK, 0); }
    bool try_lock() { return acquire(false, vrf::LM_TRY, 0); }
    void unlock() { release(false); }
    template<class R, class P>
    bool try_lock_for(const std::chrono::duration<R, P>& d) { return timed(false, deadline_from(d)); }
    template<class C, class D>
    bool try_lock_until(const std::chrono::time_point<C, D>& tp) { return timed(false, deadline_from(tp)); }
};
class verif_recursive_mutex: public vrf::vm_core<std::recursive_mutex> {
  public:
    void lock() { acquire(false, vrf::LM_BLOCK, 0); }
    bool try_lock() { return acquire(false, vrf::LM_TRY, 0); }
    void unlock() { release(false); }
};
class verif_recursive_timed_mutex: public vrf::vm_core<std::recursive_timed_mutex> {
  public:
    void lock() { acquire(false, vrf::LM_BLOCK, 0); }
    bool try_lock() { return acquire(false, vrf::LM_TRY, 0); }
    void unlock() { release(false); }
    template<class R, class P>
    bool try_lock_for(const std::chrono::duration<R, P>& d) { return timed(false, deadline_from(d)); }
    template<class C, class D>
    bool try_lock_until(const std::chrono::time_point<C, D>& tp) { return timed(false, deadline_from(tp)); }
};
class verif_shared_mutex: public vrf::vm_core<std::shared_mutex> {
  public:
    void lock() { acquire(false, vrf::LM_BLOCK, 0); }
    bool try_lock() { return acquire(false, vrf::LM_TRY, 0); }
    void unlock() { release(false); }
    void lock_shared() { acquire(true, vrf::LM_BLOCK, 0); }
    bool try_lock_shared() { return acquire(true, vrf::LM_TRY, 0); }
    void unlock_shared() { release(true); }
};
class verif_shared_timed_mutex: public vrf::vm_core<std::shared_timed_mutex> {
  public:
    void lock() { acquire(false, vrf::LM_BLOCK, 0); }
    bool try_lock() { return acquire(false, vrf::LM_TRY, 0); }
    void unlock() { release(false); }
    void lock_shared() { acquire(true, vrf::LM_BLOCK, 0); }
    bool try_lock_shared() { return acquire(true, vrf::LM_TRY, 0); }
    void unlock_shared() { release(true); }
    template<class R, class P>
    bool try_lock_for(const std::chrono::duration<R, P>& d) { return timed(false, deadline_from(d)); }
    template<class C, class D>
    bool try_lock_until(const std::chrono::time_point<C, D>& tp) { return timed(false, deadline_from(tp)); }
    template<class R, class P>
    bool try_lock_shared_for(const std::chrono::duration<R, P>& d) { return timed(true, deadline_from(d)); }
    template<class C, class D>
    bool try_lock_shared_until(const std::chrono::time_point<C, D>& tp) { return timed(true, deadline_from(tp)); }
};

// condition variable working on unique_lock<verif_mutex>
}  // namespace std
// ------------------------------------------------------------------ lock adaptors for the wrapper mutex types
// The rewrite below turns the token `mutex` into `verif_mutex` everywhere in the library text, including a call of the member
// function `unique_lock::mutex()`. std::unique_lock / std::shared_lock are therefore specialised for the wrapper types with a
// faithful re-implementation that answers to both names.
namespace vrf {
template<class M>
class ul_impl {
  public:
    using mutex_type = M;
    ul_impl() noexcept = default;
    explicit ul_impl(M& m): m_(&m), owns_(false)
    {
        lock();
    }
    ul_impl(M& m, std::defer_lock_t) noexcept: m_(&m), owns_(false) {}
    ul_impl(M& m, std::try_to_lock_t): m_(&m), owns_(m.try_lock()) {}
    ul_impl(M& m, std::adopt_lock_t) noexcept: m_(&m), owns_(true) {}
    template<class C, class D>
    ul_impl(M& m, const std::chrono::time_point<C, D>& tp): m_(&m), owns_(m.try_lock_until(tp))
    {
    }
    template<class R, class P>
    ul_impl(M& m, const std::chrono::duration<R, P>& d): m_(&m), owns_(m.try_lock_for(d))
    {
    }
    ~ul_impl()
    {
        if (owns_) unlock();
    }
    ul_impl(const ul_impl&) = delete;
    ul_impl& operator=(const ul_impl&) = delete;
    ul_impl(ul_impl&& o) noexcept: m_(o.m_), owns_(o.owns_)
    {
        o.m_ = nullptr;
        o.owns_ = false;
    }
    ul_impl& operator=(ul_impl&& o) noexcept
    {
        if (owns_) unlock();
        ul_impl(std::move(o)).swap(*this);
        o.m_ = nullptr;
        o.owns_ = false;
        return *this;
    }
    void check_lockable() const
    {
        if (!m_) throw std::system_error(std::make_error_code(std::errc::operation_not_permitted));
        if (owns_) throw std::system_error(std::make_error_code(std::errc::resource_deadlock_would_occur));
    }
    void lock()
    {
        check_lockable();
        m_->lock();
        owns_ = true;
    }
    bool try_lock()
    {
        check_lockable();
        owns_ = m_->try_lock();
        return owns_;
    }
    template<class C, class D>
    bool try_lock_until(const std::chrono::time_point<C, D>& tp)
    {
        check_lockable();
        owns_ = m_->try_lock_until(tp);
        return owns_;
    }
    template<class R, class P>
    bool try_lock_for(const std::chrono::duration<R, P>& d)
    {
        check_lockable();
        owns_ = m_->try_lock_for(d);
        return owns_;
    }
    void unlock()
    {
        if (!owns_) throw std::system_error(std::make_error_code(std::errc::operation_not_permitted));
        if (m_) {
            m_->unlock();
            owns_ = false;
        }
    }
    void swap(ul_impl& o) noexcept
    {
        std::swap(m_, o.m_);
        std::swap(owns_, o.owns_);
    }
    M* release() noexcept
    {
        M* r = m_;
        m_ = nullptr;
        owns_ = false;
        return r;
    }
    bool owns_lock() const noexcept { return owns_; }
    explicit operator bool() const noexcept { return owns_; }
    M* mutex() const noexcept { return m_; }
    M* verif_mutex() const noexcept { return m_; }           // what `.mutex()` reads as after the rewrite
    M* verif_shared_mutex() const noexcept { return m_; }
  private:
    M* m_ = nullptr;
    bool owns_ = false;
};
template<class M>
class sl_impl {
  public:
    using mutex_type = M;
    sl_impl() noexcept = default;
    explicit sl_impl(M& m): m_(&m), owns_(true) { m.lock_shared(); }
    sl_impl(M& m, std::defer_lock_t) noexcept: m_(&m), owns_(false) {}
    sl_impl(M& m, std::try_to_lock_t): m_(&m), owns_(m.try_lock_shared()) {}
    sl_impl(M& m, std::adopt_lock_t) noexcept: m_(&m), owns_(true) {}
    template<class C, class D>
    sl_impl(M& m, const std::chrono::time_point<C, D>& tp): m_(&m), owns_(m.try_lock_shared_until(tp))
    {
    }
    template<class R, class P>
    sl_impl(M& m, const std::chrono::duration<R, P>& d): m_(&m), owns_(m.try_lock_shared_for(d))
    {
    }
    ~sl_impl()
    {
        if (owns_) m_->unlock_shared();
    }
    sl_impl(const sl_impl&) = delete;
    sl_impl& operator=(const sl_impl&) = delete;
    sl_impl(sl_impl&& o) noexcept: m_(o.m_), owns_(o.owns_)
    {
        o.m_ = nullptr;
        o.owns_ = false;
    }
    sl_impl& operator=(sl_impl&& o) noexcept
    {
        sl_impl(std::move(o)).swap(*this);
        return *this;
    }
    void check_lockable() const
    {
        if (!m_) throw std::system_error(std::make_error_code(std::errc::operation_not_permitted));
        if (owns_) throw std::system_error(std::make_error_code(std::errc::resource_deadlock_would_occur));
    }
    void lock()
    {
        check_lockable();
        m_->lock_shared();
        owns_ = true;
    }
    bool try_lock()
    {
        check_lockable();
        owns_ = m_->try_lock_shared();
        return owns_;
    }
    template<class R, class P>
    bool try_lock_for(const std::chrono::duration<R, P>& d)
    {
        check_lockable();
        owns_ = m_->try_lock_shared_for(d);
        return owns_;
    }
    template<class C, class D>
    bool try_lock_until(const std::chrono::time_point<C, D>& tp)
    {
        check_lockable();
        owns_ = m_->try_lock_shared_until(tp);
        return owns_;
    }
    void unlock()
    {
        if (!owns_) throw std::system_error(std::make_error_code(std::errc::resource_deadlock_would_occur));
        m_->unlock_shared();
        owns_ = false;
    }
    void swap(sl_impl& o) noexcept
    {
        std::swap(m_, o.m_);
        std::swap(owns_, o.owns_);
    }
    M* release() noexcept
    {
        owns_ = false;
        M* r = m_;
        m_ = nullptr;
        return r;
    }
    bool owns_lock() const noexcept { return owns_; }
    explicit operator bool() const noexcept { return owns_; }
    M* mutex() const noexcept { return m_; }
    M* verif_mutex() const noexcept { return m_; }
    M* verif_shared_mutex() const noexcept { return m_; }
  private:
    M* m_ = nullptr;
    bool owns_ = false;
};
}  // namespace vrf
namespace std {
#define VRF_UL_SPEC(M)                            \
    template<>                                    \
    class unique_lock<M>: public vrf::ul_impl<::std::M> { \
      public:                                     \
        using vrf::ul_impl<::std::M>::ul_impl;    \
        unique_lock() noexcept = default;         \
        unique_lock(unique_lock&&) noexcept = default; \
        unique_lock& operator=(unique_lock&&) noexcept = default; \
    };
VRF_UL_SPEC(verif_mutex)
VRF_UL_SPEC(verif_timed_mutex)
VRF_UL_SPEC(verif_recursive_mutex)
VRF_UL_SPEC(verif_recursive_timed_mutex)
VRF_UL_SPEC(verif_shared_mutex)
VRF_UL_SPEC(verif_shared_timed_mutex)
#undef VRF_UL_SPEC
#define VRF_SL_SPEC(M)                            \
    template<>                                    \
    class shared_lock<M>: public vrf::sl_impl<::std::M> { \
      public:                                     \
        using vrf::sl_impl<::std::M>::sl_impl;    \
        shared_lock() noexcept = default;         \
        shared_lock(shared_lock&&) noexcept = default; \
        shared_lock& operator=(shared_lock&&) noexcept = default; \
    };
VRF_SL_SPEC(verif_shared_mutex)
VRF_SL_SPEC(verif_shared_timed_mutex)
#undef VRF_SL_SPEC
}  // namespace std

namespace std {
class verif_condition_variable {
    std::condition_variable cv_;
    // all threads waiting on a condition variable at the same time must use the same mutex (precondition of the standard)
    std::atomic<const void*> wait_mutex_{nullptr};
    std::atomic<int> waiters_{0};
    struct WaitScope {
        verif_condition_variable& cv;
        WaitScope(verif_condition_variable& c, const void* m): cv(c)
        {
            if (cv.waiters_.fetch_add(1, std::memory_order_relaxed) == 0) cv.wait_mutex_.store(m, std::memory_order_relaxed);
            else if (cv.wait_mutex_.load(std::memory_order_relaxed) != m)
                vrf::raise_violation("oracle:condition_variable_waited_on_with_two_different_mutexes", "{}");
        }
        ~WaitScope() { cv.waiters_.fetch_sub(1, std::memory_order_relaxed); }
    };
    // serial engine: waiters are identified by obj == this in the scheduler table

    // returns false on time-out. deadline_ns < 0: untimed
    bool wait_impl(std::unique_lock<verif_mutex>& lk, int64_t deadline_ns)
    {
        using namespace vrf;
        ThreadCtx& c = ctx();
        verif_mutex* m = lk.mutex();
        WaitScope ws(*this, m);
        c.st.cv_waits++;
        if (deadline_ns < 0) {
            c.st.block_waits++;
            if (c.block_objs.size() < 64) c.block_objs.push_back(this);
        }
        pre(CV_WAIT, this);
        if (rt.engine.load(std::memory_order_relaxed) == E_SERIAL && c.vtid >= 0) {
            auto& t = rt.sth[c.vtid];
            bool spurious = (splitmix(rt.srng) % 100) < rt.spurious_pct;
            // atomically (we hold the token): release the mutex and park
            m->vrf_cv_release(c);
            m->vrf_real().unlock();
            serial_wake_mutex_waiters(m);
            bool timedout = false;
            if (spurious) {
                c.st.spurious++;
            } else {
                t.st = SThread::BLK_CV;
                t.obj = this;
                t.timed = (deadline_ns >= 0);
                t.notified = false;
                t.where = "cv_wait";
                serial_block(c.vtid);
                t.timed = false;
                if (t.timedout) {
                    t.timedout = false;
                    timedout = true;
                    if (t.forced_timeout) c.forced_cv_timeouts++;
                    t.forced_timeout = false;
                }
            }
            m->vrf_serial_relock();
            return !timedout;
        }
        // real threads: real condition variable on the real mutex
        bool ok = true;
        bool spurious = false;
        if (c.inj_p && (splitmix(c.rng) % 64) == 0) spurious = true;
        m->vrf_cv_release(c);
        if (spurious) {
            // legal spurious wake-up, injected only at entry: unlock, yield, relock
            c.st.spurious++;
            m->vrf_real().unlock();
            sched_yield();
            m->vrf_real().lock();
        } else {
            std::unique_lock<std::mutex> inner(m->vrf_real(), std::adopt_lock);
            c.blocked_on.store(this, std::memory_order_relaxed);
            c.blocked_kind.store(deadline_ns >= 0 ? 0 : 2, std::memory_order_relaxed);
            if (deadline_ns < 0) {
                cv_.wait(inner);
            } else {
                struct timespec now;
                clock_gettime(CLOCK_MONOTONIC, &now);
                int64_t n = static_cast<int64_t>(now.tv_sec) * 1000000000LL + now.tv_nsec;
                int64_t left = deadline_ns - n;
                if (left < 0) left = 0;
                ok = cv_.wait_for(inner, std::chrono::nanoseconds(left)) == std::cv_status::no_timeout;
            }
            c.blocked_kind.store(0, std::memory_order_relaxed);
            c.blocked_on.store(nullptr, std::memory_order_relaxed);
            inner.release();
        }
        m->vrf_cv_reacquire(c);
        return ok;
    }
    static int64_t now_ns()
    {
        struct timespec now;
        clock_gettime(CLOCK_MONOTONIC, &now);
        return static_cast<int64_t>(now.tv_sec) * 1000000000LL + now.tv_nsec;
    }
    void notify_impl(bool all)
    {
        using namespace vrf;
        ThreadCtx& c = ctx();
        pre(all ? CV_NOTIFY_ALL : CV_NOTIFY_ONE, this);
        if (rt.engine.load(std::memory_order_relaxed) == E_SERIAL && c.vtid >= 0) {
            int w[MAXT];
            int nw = 0;
            for (int i = 0; i < rt.sn; i++)
                if (rt.sth[i].st == SThread::BLK_CV && rt.sth[i].obj == this) w[nw++] = i;
            if (nw == 0) return;
            if (all) {
                for (int i = 0; i < nw; i++) rt.sth[w[i]].st = SThread::RUN;
            } else {
                rt.sth[w[splitmix(rt.srng) % static_cast<unsigned>(nw)]].st = SThread::RUN;
            }
            return;
        }
        if (all) cv_.notify_all();
        else cv_.notify_one();
    }

  public:
    verif_condition_variable() = default;
    verif_condition_variable(const verif_condition_variable&) = delete;
    void notify_one() noexcept { notify_impl(false); }
    void notify_all() noexcept { notify_impl(true); }
    void wait(std::unique_lock<verif_mutex>& lk) { wait_impl(lk, -1); }
    template<class Pred>
    void wait(std::unique_lock<verif_mutex>& lk, Pred p)
    {
        while (!p()) wait_impl(lk, -1);
    }
    template<class R, class P>
    std::cv_status wait_for(std::unique_lock<verif_mutex>& lk, const std::chrono::duration<R, P>& d)
    {
        auto ns = std::chrono::duration_cast<std::chrono::nanoseconds>(d).count();
        return wait_impl(lk, now_ns() + (ns < 0 ? 0 : ns)) ? std::cv_status::no_timeout : std::cv_status::timeout;
    }
    template<class R, class P, class Pred>
    bool wait_for(std::unique_lock<verif_mutex>& lk, const std::chrono::duration<R, P>& d, Pred p)
    {
        auto ns = std::chrono::duration_cast<std::chrono::nanoseconds>(d).count();
        int64_t dl = now_ns() + (ns < 0 ? 0 : ns);
        while (!p()) {
            if (!wait_impl(lk, dl)) return p();
        }
        return true;
    }
    template<class C, class D>
    std::cv_status wait_until(std::unique_lock<verif_mutex>& lk, const std::chrono::time_point<C, D>& tp)
    {
        return wait_for(lk, tp - C::now());
    }
    template<class C, class D, class Pred>
    bool wait_until(std::unique_lock<verif_mutex>& lk, const std::chrono::time_point<C, D>& tp, Pred p)
    {
        return wait_for(lk, tp - C::now(), std::move(p));
    }
};

// atomic wrapper
template<class T>
struct verif_atomic: public std::atomic<T> {
    using B = std::atomic<T>;
    verif_atomic() noexcept = default;
    constexpr verif_atomic(T v) noexcept: B(v) {}
    verif_atomic(const verif_atomic&) = delete;
    verif_atomic& operator=(const verif_atomic&) = delete;

    static void sb_apply(void* a, uint64_t v)
    {
        T t;
        memcpy(&t, &v, sizeof(T));
        static_cast<B*>(a)->store(t, std::memory_order_release);
    }
    T load(std::memory_order mo = std::memory_order_seq_cst) const noexcept
    {
        vrf::ThreadCtx& c = vrf::ctx();
        c.st.atomics++;
        vrf::pre(vrf::A_LOAD, this, static_cast<int>(mo));
        if (!c.sb.empty()) {  // store-to-load forwarding from the own buffer
            for (size_t i = c.sb.size(); i-- > 0;) {
                if (c.sb[i].addr == static_cast<const void*>(static_cast<const B*>(this))) {
                    T t;
                    memcpy(&t, &c.sb[i].val, sizeof(T));
                    return t;
                }
            }
        }
        if constexpr (sizeof(T) <= 8 && std::is_trivially_copyable<T>::value) {
            if (vrf::stale_active(c)) {
                T cur = B::load(std::memory_order_seq_cst);
                uint64_t raw = 0;
                memcpy(&raw, &cur, sizeof(T));
                uint64_t got = vrf::stale_on_load(c, static_cast<const B*>(this), raw, static_cast<int>(mo));
                T out;
                memcpy(&out, &got, sizeof(T));
                return out;
            }
        }
        return B::load(mo);
    }
    ~verif_atomic() { vrf::stale_forget(static_cast<const B*>(this)); }
    void store(T v, std::memory_order mo = std::memory_order_seq_cst) noexcept
    {
        vrf::ThreadCtx& c = vrf::ctx();
        c.st.atomics++;
        vrf::pre(vrf::A_STORE, this, static_cast<int>(mo));
        if constexpr (sizeof(T) <= 8 && std::is_trivially_copyable<T>::value) {
            if (mo != std::memory_order_seq_cst && vrf::rt.tso.load(std::memory_order_relaxed)) {
                uint64_t raw = 0;
                memcpy(&raw, &v, sizeof(T));
                int ttl = 1 + static_cast<int>(vrf::splitmix(c.rng) % static_cast<unsigned>(vrf::rt.tso_maxttl));
                c.sb.push_back(vrf::ThreadCtx::SbEnt{static_cast<B*>(this), raw, &sb_apply, ttl});
                return;
            }
        }
        if (!c.sb.empty()) vrf::sb_flush(c);  // seq_cst store drains the buffer (x86: xchg / mfence)
        if constexpr (sizeof(T) <= 8 && std::is_trivially_copyable<T>::value) {
            if (vrf::stale_active(c)) {
                T cur = B::load(std::memory_order_seq_cst);
                uint64_t before = 0, after = 0;
                memcpy(&before, &cur, sizeof(T));
                memcpy(&after, &v, sizeof(T));
                B::store(v, mo);
                vrf::stale_on_store(c, static_cast<const B*>(this), before, after, static_cast<int>(mo), false);
                vrf::post(vrf::A_STORE, this);
                return;
            }
        }
        B::store(v, mo);
        vrf::post(vrf::A_STORE, this);
    }
    operator T() const noexcept { return load(); }
    T operator=(T v) noexcept
    {
        store(v);
        return v;
    }
    T exchange(T v, std::memory_order mo = std::memory_order_seq_cst) noexcept
    {
        rmw_pre(mo);
        T r = B::exchange(v, mo);
        stale_rmw(r, v, mo);
        vrf::post(vrf::A_RMW, this);
        return r;
    }
    bool compare_exchange_weak(T& e, T d, std::memory_order s, std::memory_order f) noexcept
    {
        cas_pre(s);
        T vrf_before = e;
        bool r = B::compare_exchange_weak(e, d, s, f);
        stale_cas(r, vrf_before, e, d, s);
        vrf::post(vrf::A_CAS, this);
        return r;
    }
    bool compare_exchange_weak(T& e, T d, std::memory_order mo = std::memory_order_seq_cst) noexcept
    {
        cas_pre(mo);
        T vrf_before = e;
        bool r = B::compare_exchange_weak(e, d, mo);
        stale_cas(r, vrf_before, e, d, mo);
        vrf::post(vrf::A_CAS, this);
        return r;
    }
    bool compare_exchange_strong(T& e, T d, std::memory_order s, std::memory_order f) noexcept
    {
        cas_pre(s);
        T vrf_before = e;
        bool r = B::compare_exchange_strong(e, d, s, f);
        stale_cas(r, vrf_before, e, d, s);
        vrf::post(vrf::A_CAS, this);
        return r;
    }
    bool compare_exchange_strong(T& e, T d, std::memory_order mo = std::memory_order_seq_cst) noexcept
    {
        cas_pre(mo);
        T vrf_before = e;
        bool r = B::compare_exchange_strong(e, d, mo);
        stale_cas(r, vrf_before, e, d, mo);
        vrf::post(vrf::A_CAS, this);
        return r;
    }
    template<class D>
    T fetch_add(D d, std::memory_order mo = std::memory_order_seq_cst) noexcept
    {
        rmw_pre(mo);
        T r = B::fetch_add(d, mo);
        stale_rmw(r, static_cast<T>(r + d), mo);
        vrf::post(vrf::A_RMW, this);
        return r;
    }
    template<class D>
    T fetch_sub(D d, std::memory_order mo = std::memory_order_seq_cst) noexcept
    {
        rmw_pre(mo);
        T r = B::fetch_sub(d, mo);
        stale_rmw(r, static_cast<T>(r - d), mo);
        vrf::post(vrf::A_RMW, this);
        return r;
    }
    template<class D>
    T fetch_and(D d, std::memory_order mo = std::memory_order_seq_cst) noexcept
    {
        rmw_pre(mo);
        T r = B::fetch_and(d, mo);
        stale_rmw(r, static_cast<T>(r & d), mo);
        vrf::post(vrf::A_RMW, this);
        return r;
    }
    template<class D>
    T fetch_or(D d, std::memory_order mo = std::memory_order_seq_cst) noexcept
    {
        rmw_pre(mo);
        T r = B::fetch_or(d, mo);
        stale_rmw(r, static_cast<T>(r | d), mo);
        vrf::post(vrf::A_RMW, this);
        return r;
    }
    template<class D>
    T fetch_xor(D d, std::memory_order mo = std::memory_order_seq_cst) noexcept
    {
        rmw_pre(mo);
        T r = B::fetch_xor(d, mo);
        stale_rmw(r, static_cast<T>(r ^ d), mo);
        vrf::post(vrf::A_RMW, this);
        return r;
    }
    T operator++(int) noexcept { return fetch_add(1); }
    T operator--(int) noexcept { return fetch_sub(1); }
    T operator++() noexcept { return fetch_add(1) + 1; }
    T operator--() noexcept { return fetch_sub(1) - 1; }
    template<class D>
    T operator+=(D d) noexcept { return fetch_add(d) + d; }
    template<class D>
    T operator-=(D d) noexcept { return fetch_sub(d) - d; }

  private:
    void stale_rmw(T old_value, T new_value, std::memory_order mo) noexcept
    {
        if constexpr (sizeof(T) <= 8 && std::is_trivially_copyable<T>::value) {
            vrf::ThreadCtx& c = vrf::ctx();
            if (!vrf::stale_active(c)) return;
            uint64_t before = 0, after = 0;
            memcpy(&before, &old_value, sizeof(T));
            memcpy(&after, &new_value, sizeof(T));
            vrf::stale_on_store(c, static_cast<B*>(this), before, after, static_cast<int>(mo), true);
        }
    }
    void stale_cas(bool ok, T expected_before, T observed, T desired, std::memory_order mo) noexcept
    {
        if constexpr (sizeof(T) <= 8 && std::is_trivially_copyable<T>::value) {
            vrf::ThreadCtx& c = vrf::ctx();
            if (!vrf::stale_active(c)) return;
            if (ok) {
                uint64_t before = 0, after = 0;
                memcpy(&before, &expected_before, sizeof(T));
                memcpy(&after, &desired, sizeof(T));
                vrf::stale_on_store(c, static_cast<B*>(this), before, after, static_cast<int>(mo), true);
            } else {
                // a failed CAS is a load of the newest value (the real object was read); conservatively an acquire of it
                uint64_t raw = 0;
                memcpy(&raw, &observed, sizeof(T));
                (void)vrf::stale_on_load(c, static_cast<B*>(this), raw, static_cast<int>(std::memory_order_seq_cst));
            }
        }
    }
    void rmw_pre(std::memory_order mo) noexcept
    {
        vrf::ThreadCtx& c = vrf::ctx();
        c.st.atomics++;
        vrf::pre(vrf::A_RMW, this, static_cast<int>(mo));
        if (!c.sb.empty()) vrf::sb_flush(c);  // locked instruction drains the store buffer
    }
    void cas_pre(std::memory_order mo) noexcept
    {
        vrf::ThreadCtx& c = vrf::ctx();
        c.st.atomics++;
        vrf::pre(vrf::A_CAS, this, static_cast<int>(mo));
        if (!c.sb.empty()) vrf::sb_flush(c);
    }
};
using verif_atomic_bool = verif_atomic<bool>;
using verif_atomic_int = verif_atomic<int>;
using verif_atomic_uint = verif_atomic<unsigned>;
using verif_atomic_long = verif_atomic<long>;
using verif_atomic_size_t = verif_atomic<size_t>;

namespace this_thread {
    inline void verif_yield() noexcept
    {
        vrf::ThreadCtx& c = vrf::ctx();
        c.st.yields++;
        c.yield_count.fetch_add(1, std::memory_order_relaxed);
        vrf::pre(vrf::T_YIELD, nullptr);
        if (!(vrf::rt.engine.load(std::memory_order_relaxed) == vrf::E_SERIAL && c.vtid >= 0)) sched_yield();
    }
    template<class R, class P>
    inline void verif_sleep_for(const std::chrono::duration<R, P>& d)
    {
        vrf::ThreadCtx& c = vrf::ctx();
        vrf::pre(vrf::T_SLEEP, nullptr);
        if (vrf::rt.engine.load(std::memory_order_relaxed) == vrf::E_SERIAL && c.vtid >= 0) return;  // virtual time
        auto ns = std::chrono::duration_cast<std::chrono::nanoseconds>(d).count();
        if (ns > 2000000) ns = 2000000;  // the library's back-off sleeps are capped at 2 ms (no property depends on their length)
        if (ns > 0) {
            struct timespec ts = {static_cast<time_t>(ns / 1000000000LL), static_cast<long>(ns % 1000000000LL)};
            nanosleep(&ts, nullptr);
        }
    }
    template<class C, class D>
    inline void verif_sleep_until(const std::chrono::time_point<C, D>& tp)
    {
        verif_sleep_for(tp - C::now());
    }
}  // namespace this_thread
}  // namespace std

// ------------------------------------------------------------------ the token rewrite
#define atomic verif_atomic
#define atomic_bool verif_atomic_bool
#define atomic_int verif_atomic_int
#define atomic_uint verif_atomic_uint
#define atomic_long verif_atomic_long
#define atomic_size_t verif_atomic_size_t
#define mutex verif_mutex
#define timed_mutex verif_timed_mutex
#define recursive_mutex verif_recursive_mutex
#define recursive_timed_mutex verif_recursive_timed_mutex
#define shared_mutex verif_shared_mutex
#define shared_timed_mutex verif_shared_timed_mutex
#define condition_variable verif_condition_variable
#define yield verif_yield
#define sleep_for verif_sleep_for
#define sleep_until verif_sleep_until
