#!/usr/bin/env python3
"""tools/coverage.py  - which lines of /repo/gmlc do the harness workloads execute?

Builds every harness with gcov instrumentation in a scratch directory (removed afterwards), runs each registered run
configuration with a few hundred rounds, merges the line counts over all harnesses and writes coverage/REPORT.md:
per header executed / executable lines and the lines never executed. Not a check: a calibration aid (DESIGN.md 10.7)."""
import glob, os, re, shutil, subprocess, sys, tempfile, collections
ROOT = os.path.dirname(os.path.dirname(os.path.abspath(__file__)))
sys.path.insert(0, ROOT)
from checks.registry import CHECKS  # noqa: E402
REPO = os.environ.get("VERIF_REPO", "/repo")
ROUNDS = int(os.environ.get("COV_ROUNDS", "400"))


def main():
    scratch = tempfile.mkdtemp(prefix="vrfcov_")
    try:
        srcs = sorted({r.get("src", c["src"]) for c in CHECKS.values() for r in c["runs"]} | {c["src"] for c in CHECKS.values()})
        procs = []
        for src in srcs:
            d = os.path.join(scratch, src[:-4])
            os.makedirs(d)
            cmd = ["g++", "-std=c++17", "-O0", "-g0", "--coverage", "-DVRF_COVERAGE", "-DGMLC_TDC_CONCURRENCY_VERIF", "-include",
                   os.path.join(ROOT, "framework/vshim.hpp"), "-I" + REPO, "-I" + os.path.join(ROOT, "framework"), "-I" + os.path.join(ROOT, "checks"),
                   "-pthread", "-Wno-deprecated-declarations", os.path.join(ROOT, "checks", src), "-o", os.path.join(d, "h")]
            procs.append((src, subprocess.Popen(cmd, cwd=d, stderr=subprocess.PIPE, text=True)))
        for src, p in procs:
            _, err = p.communicate()
            if p.returncode:
                print("build failed", src, err[-2000:])
                return 2
        jobs = []
        for pid, c in CHECKS.items():
            for r in c["runs"]:
                if r["variant"] == "tsan":
                    continue  # same code paths as the plain stress run
                src = r.get("src", c["src"])
                d = os.path.join(scratch, src[:-4])
                args = [os.path.join(d, "h"), "--engine", r["engine"], "--variant", "plain", "--seed", "1", "--proc", "0", "--rounds", str(min(ROUNDS, int(r.get("rounds_quick", r.get("rounds", ROUNDS))))),
                        "--replay-dir", d]
                if r.get("mode"):
                    args += ["--mode", r["mode"]]
                if r.get("tso"):
                    args += ["--tso", "1"]
                if r.get("stale"):
                    args += ["--stale", "1"]
                for k, v in (r.get("x") or {}).items():
                    args += ["--x-" + k, str(v)]
                jobs.append((d, args))
        seen = set()
        for d, args in jobs:  # sequential per binary (the .gcda file is merged at exit), cheap enough
            key = tuple(args)
            if key in seen:
                continue
            seen.add(key)
            try:
                r = subprocess.run(args, cwd=d, stdout=subprocess.DEVNULL, stderr=subprocess.PIPE, text=True, timeout=900)
                if r.returncode not in (0, 2):
                    print("run failed", args, r.returncode, r.stderr[-500:])
            except subprocess.TimeoutExpired:
                print("run timed out (its counters are lost)", args)
        # gcov per harness, merge
        counts = collections.defaultdict(dict)  # file -> line -> count (None = no code)
        for src in srcs:
            d = os.path.join(scratch, src[:-4])
            gcda = glob.glob(os.path.join(d, "*.gcda"))
            if not gcda:
                continue
            subprocess.run(["gcov", "-p", "-m"] + gcda, cwd=d, stdout=subprocess.DEVNULL, stderr=subprocess.DEVNULL)
            for g in glob.glob(os.path.join(d, "*.gcov")):
                with open(g, errors="replace") as fh:
                    lines = fh.read().split("\n")
                m = re.match(r"\s*-:\s*0:Source:(.*)", lines[0])
                if not m:
                    continue
                path = os.path.realpath(os.path.join(d, m.group(1)))
                if not path.startswith(os.path.realpath(os.path.join(REPO, "gmlc"))):
                    continue
                for l in lines[1:]:
                    mm = re.match(r"\s*([^:]+):\s*(\d+):", l)
                    if not mm or mm.group(2) == "0":
                        continue
                    ln = int(mm.group(2))
                    c = mm.group(1).strip().rstrip("*")
                    if c == "-":
                        counts[path].setdefault(ln, None)
                    else:
                        n = 0 if c in ("#####", "=====") else int(c)
                        old = counts[path].get(ln)
                        counts[path][ln] = n if old is None else old + n
        out = ["# Line coverage of /repo/gmlc under the harness workloads (tools/coverage.py, %d rounds per run configuration)\n" % ROUNDS,
               "| header | executable lines | executed | never executed (line numbers) |", "|---|---|---|---|"]
        tot = ex = 0
        for path in sorted(counts):
            c = counts[path]
            lines = sorted(k for k, v in c.items() if v is not None)
            hit = [k for k in lines if c[k] > 0]
            miss = [k for k in lines if c[k] == 0]
            tot += len(lines)
            ex += len(hit)
            out.append("| %s | %d | %d | %s |" % (os.path.relpath(path, REPO), len(lines), len(hit), " ".join(map(str, miss)) or "-"))
        out.append("| **total** | %d | %d | |" % (tot, ex))
        # headers that no harness includes
        out.append("\n## Headers without any counters\n")
        none = True
        for path in sorted(glob.glob(os.path.join(REPO, "gmlc", "*", "*.hpp"))):
            if os.path.realpath(path) not in counts:
                out.append("* %s: no harness includes or instantiates anything from this header" % os.path.relpath(path, REPO))
                none = False
        if none:
            out.append("(none)")
        out.append("\nTemplates that are defined but never instantiated carry no counters and do not appear above; DESIGN.md 10.7 lists the "
                   "ones found by comparing the public interface with the harness sources.")
        os.makedirs(os.path.join(ROOT, "coverage"), exist_ok=True)
        with open(os.path.join(ROOT, "coverage", "REPORT.md"), "w") as fh:
            fh.write("\n".join(out) + "\n")
        print("\n".join(out))
        print("total executable %d executed %d" % (tot, ex))
        return 0
    finally:
        shutil.rmtree(scratch, ignore_errors=True)


if __name__ == "__main__":
    sys.exit(main())
