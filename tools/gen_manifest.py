#!/usr/bin/env python3
"""Regenerate /verif/MANIFEST.json from checks/registry.py (claimed checks) + the not_applicable table below."""
import json, os, sys
ROOT = os.path.dirname(os.path.dirname(os.path.abspath(__file__)))
sys.path.insert(0, ROOT)
from checks.registry import CHECKS

NOT_APPLICABLE = {}   # property -> reason (only for properties without a check)

props = [json.loads(l)["id"] for l in open(os.path.join(ROOT, "properties.jsonl"))]
checks = []
for p in props:
    if p not in CHECKS:
        continue
    c = CHECKS[p]
    engines = sorted({"%s+%s" % (r["engine"], r["variant"]) for r in c["runs"]})
    checks.append({
        "property_id": p,
        "quick_cmd": "python3 verif.py check %s --tier quick" % p,
        "thorough_cmd": "python3 verif.py check %s --tier thorough" % p,
        "evidence_file": "/verif/evidence/%s.json" % p,
        "replay_cmd_template": "python3 verif.py replay {path}",
        "engine": ", ".join(engines),
        "level_claimed": {"category": c.get("level", "exploration"), "text": c.get("level_text", c["rule"]), "design_ref": "DESIGN.md section 4, " + p},
        "level_note": c.get("level_note", "; ".join(c.get("assumptions", [])) or "held on the executions reported in the evidence file, not a proof"),
        "technique": c.get("technique", "runtime monitoring: " + ", ".join(engines)),
    })
na = [{"property_id": p, "reason": NOT_APPLICABLE.get(p, "check under construction (runtime monitoring applies; see DESIGN.md section 4)")} for p in props if p not in CHECKS]
m = {
    "version": 1,
    "setup_cmd": "python3 verif.py setup",
    "hooks": {"guard": "GMLC_TDC_CONCURRENCY_VERIF",
              "enable": "no source hooks in /repo: harness builds pass -DGMLC_TDC_CONCURRENCY_VERIF -include /verif/framework/vshim.hpp (token shim that rewrites std::atomic/mutex/condition_variable/yield/sleep_for in the library's own text, DESIGN.md 3.1)",
              "baseline_off_cmd": "cmake --build /repo/_build && ctest --test-dir /repo/_build -j8 --timeout 900",
              "source_commits": [], "add_only": True},
    "engines": [
        {"name": "stress", "path": "framework/vshim.hpp", "serves_properties": props, "kind_free_text": "free-running real threads, seeded delay injection at every synchronisation operation of the library, spurious wake-ups, watchdog with blocked-state classification; the only engine used under TSan"},
        {"name": "serial", "path": "framework/vshim.hpp", "serves_properties": props, "kind_free_text": "serialized seeded schedule fuzzing (random walk / PCT priorities) on real threads with logical deadlock and livelock detection, scheduler-chosen time-outs, deterministic replay, writer freezing"},
        {"name": "seq/off", "path": "framework/vrf.hpp", "serves_properties": ["C12", "C13", "C16", "C17", "C18"], "kind_free_text": "single-threaded model-based API sequences under ASan+UBSan"},
    ],
    "checks": checks,
    "not_applicable": na,
    "notes": "All checks are executed through verif.py (driver) which rebuilds the needed harness variants from /repo's working tree (hash-keyed cache under /verif/build), runs up to 16 harness processes, merges their JSON summaries into evidence/<id>.json and routes every violation key through known_findings.txt.",
}
json.dump(m, open(os.path.join(ROOT, "MANIFEST.json"), "w"), indent=1)
print("claimed:", [c["property_id"] for c in checks], "not_applicable:", len(na))
