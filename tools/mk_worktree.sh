#!/bin/bash
# scratch worktree of /repo for a seeded-change sub-agent: tools/mk_worktree.sh /tmp/seed_X
set -e
d="$1"
git -C /repo worktree add -q --detach "$d" HEAD
cp -r /repo/ThirdParty/googletest/. "$d/ThirdParty/googletest/"
cd "$d"
cmake -G Ninja -B _build -DCMAKE_BUILD_TYPE=RelWithDebInfo -DGMLC_CONCURRENCY_ENABLE_SUBMODULE_UPDATE=OFF > /dev/null 2>&1
cmake --build _build > /dev/null 2>&1
echo "ready $d"
