#!/usr/bin/env python3
"""tools/mkseedmeta.py <sid> <prop> <include-suffix> '<extra flags>' <opt> <detect,props>   (turns the agent's meta into seeded/<sid>/meta.json)"""
import json, os, sys
S = os.path.join(os.path.dirname(os.path.dirname(os.path.abspath(__file__))), "seeded")
sid, prop, inc, extra, opt, detect = sys.argv[1:7]
am = json.load(open(f"{S}/{sid}/agent_meta.json"))
m = {"id": sid, "property": prop, "summary": am.get("summary"), "needs": am.get("needs"),
     "author": "independent sub-agent given only the property text and a scratch worktree", "demo_file": "demo.cpp",
     "demo_build_run": "g++ -std=c++17 %s -g -pthread %s -I{WT}%s {DEMO} -o {WT}/_seed_demo && {WT}/_seed_demo" % (opt, extra, inc),
     "agent_observed_with_patch": am.get("observed_with_patch"), "agent_observed_without_patch": am.get("observed_without_patch"),
     "detect_with": detect.split(","),
     "confirmed_by": "tools/seeded.py confirm %s (fresh worktree: unit tests pass twice with the patch, demo passes without / fails with the patch)" % sid}
json.dump(m, open(f"{S}/{sid}/meta.json", "w"), indent=1)
os.remove(f"{S}/{sid}/agent_meta.json")
