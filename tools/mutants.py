#!/usr/bin/env python3
"""Calibration mutants (DESIGN.md Appendix B): each is applied to a scratch copy of /repo/gmlc under a temp dir
(never to /repo), the named quick checks are run against the copy and must print a VIOLATION.

  tools/mutants.py list
  tools/mutants.py run [id ...] [--tier quick] [--keep]     results appended to mutants/RESULTS.md
"""
import argparse, json, os, shutil, subprocess, sys, tempfile, time
ROOT = os.path.dirname(os.path.dirname(os.path.abspath(__file__)))
sys.path.insert(0, ROOT)
from mutants.catalogue import MUTANTS  # noqa


def apply(m, dst):
    for sd in m.get("sed", []):
        p = os.path.join(dst, sd["file"])
        s = open(p).read()
        for a, b in sd["subs"]:
            if a not in s:
                raise SystemExit("variant %s: %r not found in %s" % (m["id"], a, sd["file"]))
            s = s.replace(a, b)
        open(p, "w").write(s)
    for ed in m.get("edits", []):
        p = os.path.join(dst, ed["file"])
        s = open(p).read()
        if "first_of" in ed:   # the text occurs several times (e.g. locked and single-thread class): take the first
            if s.count(ed["old"]) != ed["first_of"]:
                raise SystemExit("mutant %s: pattern occurs %d times in %s" % (m["id"], s.count(ed["old"]), ed["file"]))
            open(p, "w").write(s.replace(ed["old"], ed["new"], 1))
            continue
        if s.count(ed["old"]) != 1:
            raise SystemExit("mutant %s: pattern occurs %d times in %s" % (m["id"], s.count(ed["old"]), ed["file"]))
        open(p, "w").write(s.replace(ed["old"], ed["new"]))


def run_one(m, tier, keep):
    tmp = tempfile.mkdtemp(prefix="vmut_%s_" % m["id"])
    try:
        shutil.copytree("/repo/gmlc", os.path.join(tmp, "gmlc"))
        apply(m, tmp)
        env = dict(os.environ, VERIF_REPO=tmp, VERIF_BUILD=os.path.join(tmp, "build"), VERIF_EVID=os.path.join(tmp, "evidence"),
                   VERIF_REPLAYS=os.path.join(tmp, "replays"))
        out = {}
        for prop in m["props"]:
            t0 = time.time()
            r = subprocess.run([sys.executable, os.path.join(ROOT, "verif.py"), "check", prop, "--tier", tier], env=env,
                               stdout=subprocess.PIPE, stderr=subprocess.PIPE, text=True)
            keys = sorted({l.split("key=")[-1] for l in r.stdout.splitlines() if l.startswith("VIOLATION")})
            out[prop] = {"rc": r.returncode, "keys": keys, "wall": round(time.time() - t0, 1)}
            if r.returncode == 2:
                out[prop]["stderr"] = r.stderr[-600:]
        return out
    finally:
        if not keep:
            shutil.rmtree(tmp, ignore_errors=True)
        else:
            print("kept", tmp)


def main():
    ap = argparse.ArgumentParser()
    ap.add_argument("cmd", choices=["list", "run", "benign"])
    ap.add_argument("ids", nargs="*")
    ap.add_argument("--tier", default="quick")
    ap.add_argument("--keep", action="store_true")
    a = ap.parse_args()
    if a.cmd == "list":
        for m in MUTANTS:
            print(m["id"], ",".join(m["props"]), "-", m["what"])
        return
    if a.cmd == "benign":
        # semantics-preserving variants: every listed check must stay silent (exit 0)
        from mutants.benign import BENIGN
        bad = 0
        out = []
        for m in [b for b in BENIGN if not a.ids or b["id"] in a.ids]:
            res = run_one(m, a.tier, a.keep)
            for prop, r in res.items():
                verdict = "SILENT" if r["rc"] == 0 else ("FALSE-ALARM" if r["rc"] == 1 else "HARNESS-FAILURE")
                bad += r["rc"] != 0
                line = "| %s | %s | %s | %s | %s | %ss | %s |" % (m["id"], m["what"], prop, a.tier, verdict, r["wall"], "; ".join(r["keys"])[:160])
                print(line, flush=True)
                out.append(line)
                if r["rc"] == 2:
                    print(r.get("stderr", ""))
        with open(os.path.join(ROOT, "mutants", "BENIGN_RESULTS.md"), "a") as f:
            f.write("\n".join(out) + "\n")
        sys.exit(1 if bad else 0)
    todo = [m for m in MUTANTS if not a.ids or m["id"] in a.ids]
    lines = []
    for m in todo:
        res = run_one(m, a.tier, a.keep)
        for prop, r in res.items():
            verdict = "CAUGHT" if r["rc"] == 1 else ("MISSED" if r["rc"] == 0 else "HARNESS-FAILURE")
            line = "| %s | %s | %s | %s | %s | %ss | %s |" % (m["id"], m["what"], prop, a.tier, verdict, r["wall"], "; ".join(r["keys"])[:160])
            print(line, flush=True)
            if r["rc"] == 2:
                print(r.get("stderr", ""))
            lines.append(line)
    with open(os.path.join(ROOT, "mutants", "RESULTS.md"), "a") as f:
        f.write("\n".join(lines) + "\n")


if __name__ == "__main__":
    main()
