#!/usr/bin/env python3
"""Seeded changes written by independent sub-agents (kept under /verif/seeded/<id>/).

  tools/seeded.py confirm <id>      fresh scratch worktree: apply patch, build + run unit tests twice, run the demo with and
                                    without the patch (expects fail / pass)
  tools/seeded.py detect <id> [props...] [--tier quick]   run the checks against a scratch copy of /repo/gmlc with the patch applied
  tools/seeded.py detect-all
"""
import json, os, shutil, subprocess, sys, tempfile, time
ROOT = os.path.dirname(os.path.dirname(os.path.abspath(__file__)))
SEEDED = os.path.join(ROOT, "seeded")


def sh(cmd, **kw):
    return subprocess.run(cmd, shell=isinstance(cmd, str), stdout=subprocess.PIPE, stderr=subprocess.STDOUT, text=True, **kw)


def meta(sid):
    return json.load(open(os.path.join(SEEDED, sid, "meta.json")))


def confirm(sid):
    d = os.path.join(SEEDED, sid)
    wt = tempfile.mkdtemp(prefix="vseed_%s_" % sid)
    os.rmdir(wt)
    try:
        print(sh([os.path.join(ROOT, "tools/mk_worktree.sh"), wt]).stdout.strip())
        m = meta(sid)
        demo = m["demo_build_run"].replace("{WT}", wt).replace("{DEMO}", os.path.join(d, m.get("demo_file", "demo.cpp")))
        r0 = sh(demo, cwd=wt)
        print("demo WITHOUT patch: rc=%d  %s" % (r0.returncode, r0.stdout.strip().splitlines()[-1:] ))
        r = sh(["git", "-C", wt, "apply", os.path.join(d, "patch.diff")])
        if r.returncode:
            print("patch does not apply:", r.stdout)
            return 2
        ok = 0
        for i in range(2):
            t = sh("cmake --build %s/_build 2>&1 | tail -1 && ctest --test-dir %s/_build -j8 --timeout 900 2>&1 | grep -E 'tests passed|tests failed'" % (wt, wt))
            print("unit tests with patch:", t.stdout.strip().replace("\n", " | "))
            ok += "100% tests passed" in t.stdout
        r1 = sh(demo, cwd=wt)
        print("demo WITH patch:    rc=%d  %s" % (r1.returncode, r1.stdout.strip().splitlines()[-2:]))
        good = (r0.returncode == 0 and r1.returncode != 0 and ok == 2)
        print("CONFIRMED" if good else "NOT CONFIRMED")
        return 0 if good else 1
    finally:
        sh(["git", "-C", "/repo", "worktree", "remove", "--force", wt])
        shutil.rmtree(wt, ignore_errors=True)


def detect(sid, props, tier):
    d = os.path.join(SEEDED, sid)
    tmp = tempfile.mkdtemp(prefix="vseedrun_%s_" % sid)
    try:
        shutil.copytree("/repo/gmlc", os.path.join(tmp, "gmlc"))
        r = sh(["patch", "-p1", "-d", tmp, "-i", os.path.join(d, "patch.diff")])
        if r.returncode:
            print("patch does not apply:", r.stdout)
            return
        env = dict(os.environ, VERIF_REPO=tmp, VERIF_BUILD=os.path.join(tmp, "build"), VERIF_EVID=os.path.join(tmp, "evidence"), VERIF_REPLAYS=os.path.join(tmp, "replays"))
        for p in props:
            t0 = time.time()
            r = subprocess.run([sys.executable, os.path.join(ROOT, "verif.py"), "check", p, "--tier", tier], env=env, stdout=subprocess.PIPE, stderr=subprocess.PIPE, text=True)
            keys = sorted({l.split("key=")[-1] for l in r.stdout.splitlines() if l.startswith("VIOLATION")})
            verdict = "CAUGHT" if r.returncode == 1 else ("MISSED" if r.returncode == 0 else "HARNESS-FAILURE")
            print("| %s | %s | %s | %s | %.0fs | %s |" % (sid, p, tier, verdict, time.time() - t0, "; ".join(keys)[:200]), flush=True)
            if r.returncode == 2:
                print(r.stderr[-800:])
    finally:
        shutil.rmtree(tmp, ignore_errors=True)


if __name__ == "__main__":
    a = sys.argv[1:]
    tier = "quick"
    if "--tier" in a:
        i = a.index("--tier")
        tier = a[i + 1]
        del a[i:i + 2]
    if a[0] == "confirm":
        sys.exit(confirm(a[1]))
    if a[0] == "detect":
        detect(a[1], a[2:] or meta(a[1])["detect_with"], tier)
    if a[0] == "detect-all":
        for sid in sorted(os.listdir(SEEDED)):
            if os.path.isdir(os.path.join(SEEDED, sid)):
                detect(sid, meta(sid)["detect_with"], tier)
