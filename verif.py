#!/usr/bin/env python3
"""Driver for the runtime-monitoring checks (DESIGN.md 3.7/3.8).

  verif.py setup                         build every harness variant (hash-keyed cache)
  verif.py check C05 [--tier quick]      run one property's check, write evidence/C05.json
  verif.py all [--tier quick]            run every registered check, print a table
  verif.py replay <replay.json>          re-run the recorded round

Exit codes of `check`: 0 held on everything explored, 1 violation (VIOLATION line
printed), 2 harness failure / nothing observed.
"""
import argparse, concurrent.futures as cf, fnmatch, glob, hashlib, json, os, re, shutil, subprocess, sys, time

ROOT = os.path.dirname(os.path.abspath(__file__))
REPO = os.environ.get("VERIF_REPO", "/repo")
# scratch runs against a modified copy of the tree (calibration mutants) redirect everything that is written
BUILD = os.environ.get("VERIF_BUILD", os.path.join(ROOT, "build"))
EVID = os.environ.get("VERIF_EVID", os.path.join(ROOT, "evidence"))
REPLAYS = os.environ.get("VERIF_REPLAYS", os.path.join(ROOT, "replays"))
NCPU = os.cpu_count() or 4
THOROUGH_SCALE = int(os.environ.get("VERIF_THOROUGH_SCALE", "4"))  # multiplies every rounds_thorough of the registry

sys.path.insert(0, ROOT)
from checks.registry import CHECKS  # noqa: E402

COMMON = ["-std=c++17", "-g1", "-pipe", "-DGMLC_TDC_CONCURRENCY_VERIF", "-include", os.path.join(ROOT, "framework/vshim.hpp"),
          "-I" + REPO, "-I" + os.path.join(ROOT, "framework"), "-I" + os.path.join(ROOT, "checks"), "-pthread",
          "-Wno-deprecated-declarations"]
VARIANTS = {
    # uninitialised automatic objects: 0xFE bytes in the plain / tsan builds, zeroes in the asan build (whose heap is 0xbe-filled)
    "plain": ["g++", "-O1", "-ftrivial-auto-var-init=pattern"],
    "asan": ["g++", "-O0", "-ftrivial-auto-var-init=zero", "-fsanitize=address,undefined", "-fno-sanitize-recover=all", "-fno-omit-frame-pointer"],
    "tsan": ["g++", "-O1", "-ftrivial-auto-var-init=pattern", "-fsanitize=thread", "-fno-omit-frame-pointer"],
}


def sh(cmd, **kw):
    return subprocess.run(cmd, stdout=subprocess.PIPE, stderr=subprocess.PIPE, text=True, **kw)


def tree_hash():
    h = hashlib.sha1()
    files = []
    for base in (os.path.join(REPO, "gmlc"), os.path.join(ROOT, "framework")):
        for dp, dn, fn in os.walk(base):
            dn.sort()
            for f in sorted(fn):
                files.append(os.path.join(dp, f))
    for f in files:
        h.update(f.encode())
        with open(f, "rb") as fh:
            h.update(fh.read())
    return h


def binary_for(src, variant):
    h = tree_hash()
    with open(os.path.join(ROOT, "checks", src), "rb") as fh:
        h.update(fh.read())
    for p in sorted(glob.glob(os.path.join(ROOT, "checks", "*.hpp"))):  # every shared harness header
        with open(p, "rb") as fh:
            h.update(fh.read())
    h.update(" ".join(VARIANTS[variant] + COMMON).encode())
    stem = os.path.splitext(src)[0]
    return os.path.join(BUILD, "%s_%s_%s" % (stem, variant, h.hexdigest()[:16])), stem


def build_one(src, variant):
    out, stem = binary_for(src, variant)
    if os.path.exists(out):
        return out, None
    os.makedirs(BUILD, exist_ok=True)
    for old in glob.glob(os.path.join(BUILD, "%s_%s_*" % (stem, variant))):
        try:
            os.remove(old)
        except OSError:
            pass
    tmp = out + ".tmp%d" % os.getpid()
    cmd = VARIANTS[variant] + COMMON + [os.path.join(ROOT, "checks", src), "-o", tmp]
    r = sh(cmd)
    if r.returncode != 0 and "No such file or directory" in r.stderr and "/tmp/" in r.stderr:
        r = sh(cmd)  # a compiler temporary vanished (someone cleaned /tmp): not the tree's fault, try once more
    if r.returncode != 0:
        return None, "build failed (%s %s):\n%s" % (src, variant, r.stderr[-4000:])
    os.replace(tmp, out)
    return out, None


def build_many(pairs):
    pairs = sorted(set(pairs))
    outs, errs = {}, []
    with cf.ThreadPoolExecutor(max_workers=NCPU) as ex:
        futs = {ex.submit(build_one, s, v): (s, v) for s, v in pairs}
        for f in cf.as_completed(futs):
            out, err = f.result()
            if err:
                errs.append(err)
            outs[futs[f]] = out
    return outs, errs


# ----------------------------------------------------------------------------- known findings
def load_known():
    finds = []
    p = os.path.join(ROOT, "known_findings.txt")
    if not os.path.exists(p):
        return finds
    for line in open(p):
        line = line.strip()
        m = re.match(r"finding:\s+property=(\S+)\s+key=(\S+)\s+(.*)", line)
        if m:
            finds.append({"property": m.group(1), "key": m.group(2), "what": m.group(3)})
    return finds


# ----------------------------------------------------------------------------- running harness processes
SAN_ENV = {
    "ASAN_OPTIONS": "abort_on_error=0:halt_on_error=1:detect_leaks=1:exitcode=66:detect_stack_use_after_return=0:"
                    "allocator_may_return_null=1:print_summary=1",
    "UBSAN_OPTIONS": "print_stacktrace=1:halt_on_error=1:exitcode=66",
    "LSAN_OPTIONS": "exitcode=66",
}


def classify_sanitizer(stderr):
    """return (key, text) for an ASan/UBSan/LSan report in stderr, or None"""
    m = re.search(r"ERROR: (AddressSanitizer|LeakSanitizer): ([A-Za-z\-_ ]+?)(?: on | of |:|\n|$)", stderr)
    if m:
        kind = m.group(2).strip().replace(" ", "-")
        frames = re.findall(r"#\d+ 0x[0-9a-f]+ in (.+?) (/\S+?):(\d+)", stderr)
        top = ""
        for fn, path, ln in frames:
            if "/gmlc/" in path:
                top = os.path.basename(path) + ":" + re.sub(r"[<(].*", "", fn).split("::")[-1]
                break
        return "asan:%s:%s" % (kind, top), stderr[m.start():m.start() + 7000]
    m = re.search(r"(\S+?):(\d+):\d+: runtime error: (.*)", stderr)
    if m:
        what = re.sub(r"0x[0-9a-f]+", "ADDR", m.group(3))[:80].strip().replace(" ", "_")
        return "ubsan:%s:%s" % (os.path.basename(m.group(1)), what), stderr[m.start():m.start() + 7000]
    return None


def parse_tsan_logs(prefix):
    """return list of (key, text) for the report blocks in TSan log files"""
    out = []
    for f in glob.glob(prefix + ".*"):
        txt = open(f, errors="replace").read()
        for blk in re.split(r"(?==================\n)", txt):
            m = re.search(r"WARNING: ThreadSanitizer: ([^\(\n]+)", blk)
            if not m:
                continue
            kind = m.group(1).strip().replace(" ", "-")
            # one frame per stack: first frame inside the library (or the harness) of each stack
            stacks = re.split(r"\n\s*\n", blk)
            tops = []
            for s in stacks:
                fr = re.findall(r"#\d+ (.+?) (/\S+?):(\d+)", s)
                pick = None
                for fn, path, ln in fr:
                    if "/gmlc/" in path:
                        pick = os.path.basename(path) + ":" + re.sub(r"[<(].*", "", fn).split("::")[-1]
                        break
                if pick is None:
                    for fn, path, ln in fr:
                        if "/checks/" in path or "/framework/" in path:
                            pick = os.path.basename(path) + ":" + re.sub(r"[<(].*", "", fn).split("::")[-1]
                            break
                if pick and pick not in tops:
                    tops.append(pick)
                if len(tops) >= 2:
                    break
            out.append(("tsan:%s:%s" % (kind, "|".join(sorted(tops))), blk[:6000]))
        try:
            os.remove(f)
        except OSError:
            pass
    return out


def run_proc(binary, run, proc, seed, rounds, replay_dir, tier, timeout_s, extra_args=()):
    args = [binary, "--engine", run["engine"], "--variant", run["variant"], "--seed", str(seed), "--proc", str(proc),
            "--rounds", str(rounds), "--replay-dir", replay_dir]
    if run.get("mode"):
        args += ["--mode", run["mode"]]
    if run.get("tso"):
        args += ["--tso", "1"]
    if run.get("stale"):
        args += ["--stale", "1"]
    for k, v in (run.get("x") or {}).items():
        args += ["--x-" + k, str(v)]
    args += list(extra_args)
    env = dict(os.environ)
    env.update(SAN_ENV)
    tsan_prefix = None
    if run["variant"] == "tsan":
        tsan_prefix = os.path.join(replay_dir, "tsanlog_%s_%s_%d_%d" % (run["engine"], run.get("mode", ""), proc, os.getpid()))
        env["TSAN_OPTIONS"] = "halt_on_error=0:exitcode=0:second_deadlock_stack=1:report_signal_unsafe=0:history_size=4:log_path=" + tsan_prefix
    t0 = time.time()
    try:
        r = subprocess.run(args, stdout=subprocess.PIPE, stderr=subprocess.PIPE, text=True, errors="replace", env=env, timeout=timeout_s)
        rc, out, err = r.returncode, r.stdout, r.stderr
    except subprocess.TimeoutExpired as e:
        rc, out, err = 124, (e.stdout or b"").decode(errors="replace") if isinstance(e.stdout, bytes) else (e.stdout or ""), \
            (e.stderr or b"").decode(errors="replace") if isinstance(e.stderr, bytes) else (e.stderr or "")
    res = None
    m = None
    for m in re.finditer(r"^VRF-RESULT (\{.*\})\s*$", out, re.M):
        pass
    if m:
        try:
            res = json.loads(m.group(1))
        except Exception:
            res = None
    tsan = parse_tsan_logs(tsan_prefix) if tsan_prefix else []
    return {"args": args, "rc": rc, "out": out, "err": err, "res": res, "tsan": tsan, "wall": time.time() - t0, "proc": proc, "run": run}


def write_replay(replay_dir, prop, key, payload):
    os.makedirs(replay_dir, exist_ok=True)
    safe = re.sub(r"[^A-Za-z0-9]", "_", key)[:70]
    path = os.path.join(replay_dir, "%s_driver_%s.json" % (prop, safe))
    with open(path, "w") as f:
        json.dump(payload, f, indent=1)
    return path


def check(prop, tier, seed, verbose=False):
    spec = CHECKS[prop]
    t0 = time.time()
    replay_dir = os.path.join(REPLAYS, prop)
    if os.path.isdir(replay_dir):
        shutil.rmtree(replay_dir, ignore_errors=True)
    os.makedirs(replay_dir, exist_ok=True)
    os.makedirs(EVID, exist_ok=True)
    runs = [r for r in spec["runs"] if tier in r.get("tiers", ("quick", "thorough"))]
    outs, errs = build_many([(r.get("src", spec["src"]), r["variant"]) for r in runs])
    if errs:
        for e in errs:
            print("HARNESS-FAILURE " + e, file=sys.stderr)
        return 2
    jobs = []
    for run in runs:
        nproc = run.get("procs_" + tier, run.get("procs", 4))
        rounds = run.get("rounds_" + tier, run.get("rounds", 100))
        if tier == "thorough" and ("rounds_thorough" in run):
            rounds *= THOROUGH_SCALE
        for p in range(nproc):
            jobs.append((outs[(run.get("src", spec["src"]), run["variant"])], run, p, rounds))
    timeout_s = spec.get("timeout_" + tier, 300 if tier == "quick" else 3600)
    results = []

    def do(job):
        b, run, p, rounds = job
        r = run_proc(b, run, p, seed, rounds, replay_dir, tier, timeout_s)
        if r["rc"] in (3, 124):  # stalled batch: re-run once before calling it a hang
            r2 = run_proc(b, run, p, seed, rounds, replay_dir, tier, timeout_s)
            r2["rerun_of_stall"] = True
            if r2["rc"] in (3, 124):
                r2["confirmed_stall"] = True
            else:
                r2["stall_inconclusive"] = 1
            return r2
        return r

    with cf.ThreadPoolExecutor(max_workers=NCPU) as ex:
        results = list(ex.map(do, jobs))

    known = [k for k in load_known() if k["property"] == prop]
    violations = []  # (key, replay)
    harness_fail = []
    inconclusive = {}
    for r in results:
        run = r["run"]
        tag = "%s/%s%s%s#%d" % (run["variant"], run["engine"], ("/" + run["mode"]) if run.get("mode") else "", "/tso" if run.get("tso") else "", r["proc"])
        if r.get("stall_inconclusive"):
            inconclusive["stalled_batch_passed_on_rerun"] = inconclusive.get("stalled_batch_passed_on_rerun", 0) + 1
        for key, text in r["tsan"]:
            violations.append((key, write_replay(replay_dir, prop, key, {"property": prop, "key": key, "run": tag, "cmd": " ".join(r["args"]), "report_text": text})))
        res = r["res"]
        if res and res.get("violations"):
            for v in res["violations"]:
                violations.append((v["key"], v["replay"]))
            continue
        san = classify_sanitizer(r["err"])
        if san:
            key, text = san
            prog = re.search(r"VRF-CRASH-PROGRAM (.*)", r["err"])
            rnd = re.search(r"VRF-CRASH \S* ?round=(-?\d+)", r["err"])
            violations.append((key, write_replay(replay_dir, prop, key, {"property": prop, "key": key, "run": tag, "cmd": " ".join(r["args"]) + ((" --only-round " + rnd.group(1)) if rnd else ""),
                                                                         "program": prog.group(1) if prog else None, "report_text": text})))
            continue
        if r.get("confirmed_stall"):
            key = "hang:stall"
            violations.append((key, write_replay(replay_dir, prop, key, {"property": prop, "key": key, "run": tag, "cmd": " ".join(r["args"]), "stderr": r["err"][-3000:]})))
            continue
        if r["rc"] == 70 or r["rc"] < 0:
            sig = re.search(r"VRF-CRASH signal=(\d+)", r["err"])
            key = "crash:signal%s" % (sig.group(1) if sig else str(-r["rc"]))
            prog = re.search(r"VRF-CRASH-PROGRAM (.*)", r["err"])
            rnd = re.search(r"VRF-CRASH signal=\d+ round=(-?\d+)", r["err"])
            violations.append((key, write_replay(replay_dir, prop, key, {"property": prop, "key": key, "run": tag, "cmd": " ".join(r["args"]) + ((" --only-round " + rnd.group(1)) if rnd else ""),
                                                                         "program": prog.group(1) if prog else None, "stderr": r["err"][-3000:]})))
            continue
        if r["rc"] == 1:
            m = re.search(r"VRF-VIOLATION (\S+) (.*)", r["err"])
            if m:
                key = m.group(1)
                violations.append((key, write_replay(replay_dir, prop, key, {"property": prop, "key": key, "run": tag, "cmd": " ".join(r["args"]), "detail": m.group(2)[:4000]})))
                continue
        if r["rc"] != 0 or res is None:
            harness_fail.append("%s rc=%s\n%s" % (tag, r["rc"], (r["err"] or r["out"])[-1500:]))

    # ---- merge evidence
    evaluations = 0
    sigs = set()
    distinct_sum = 0
    counters, hooks, shim, samples, thr = {}, {}, {}, [], {}
    per_run = {}
    for r in results:
        res = r["res"]
        if not res:
            continue
        evaluations += res.get("rounds", 0)
        sigs.update(res.get("nontrivial_sigs", []))
        distinct_sum += res.get("nontrivial", 0)
        for k, v in res.get("counters", {}).items():
            counters[k] = counters.get(k, 0) + v
        for k, v in res.get("hooks", {}).items():
            hooks[k] = hooks.get(k, 0) + v
        for k, v in res.get("shim", {}).items():
            shim[k] = shim.get(k, 0) + v
        for k, v in res.get("inconclusive", {}).items():
            inconclusive[k] = inconclusive.get(k, 0) + v
        for k, v in res.get("thresholds", {}).items():
            t = thr.setdefault(k, [0, v[1]])
            t[0] += v[0]
        if len(samples) < 6:
            samples.extend(res.get("samples", [])[:2])
        run = r["run"]
        tag = "%s/%s%s%s" % (run["variant"], run["engine"], ("/" + run["mode"]) if run.get("mode") else "", "/tso" if run.get("tso") else ("/stale" if run.get("stale") else ""))
        pr = per_run.setdefault(tag, {"processes": 0, "rounds": 0, "wall_s": 0.0})
        pr["processes"] += 1
        pr["rounds"] += res.get("rounds", 0)
        pr["wall_s"] = round(pr["wall_s"] + r["wall"], 2)

    # thresholds are judged on the merged counts ("observed nothing" is a broken check, not a pass)
    unmet = {k: v for k, v in thr.items() if v[0] < v[1]}
    # a process exiting 2 only because of its own threshold is not a harness failure if the merged count is fine
    harness_fail = [h for h in harness_fail if "VRF-THRESHOLD-NOT-MET" not in h or "VRF-HARNESS-ERROR" in h]

    uniq = {}
    for key, rep in violations:
        uniq.setdefault(key, rep)
    reported, known_hits = [], []
    for key, rep in uniq.items():
        hit = next((k for k in known if fnmatch.fnmatch(key, k["key"])), None)
        if hit:
            known_hits.append((hit, key))
        else:
            reported.append((key, rep))

    ev = {
        "property_id": prop, "tier": tier, "seed": seed, "level": spec.get("level", "exploration"),
        "coverage": {
            "evaluations": evaluations,
            "distinct_nontrivial": len(sigs),
            "rule": spec["rule"],
            "samples": samples[:6] if samples else [{"note": "no sample recorded"}],
            "distinct_nontrivial_note": "size of the union over processes of the non-trivial signature sets (each process reports at most 4000); "
                                        "sum of per-process counts = %d" % distinct_sum,
            "runs": per_run, "monitor_counters": counters, "hooks_fired": hooks, "shim_counters": shim,
            "thresholds": {k: {"observed": v[0], "floor": v[1]} for k, v in thr.items()},
            "inconclusive": inconclusive,
            "violation_keys": sorted(uniq.keys()),
            "known_findings_matched": [k for _, k in known_hits],
        },
        "assumptions": spec.get("assumptions", []),
        "wall_s": round(time.time() - t0, 2),
        "violations": len(reported),
    }
    if spec.get("exhaustive_note"):
        ev["coverage"]["exhaustive_dimension"] = spec["exhaustive_note"]
    with open(os.path.join(EVID, prop + ".json"), "w") as f:
        json.dump(ev, f, indent=1)

    for hit, key in known_hits:
        print("KNOWN-FINDING: property=%s %s (key %s)" % (prop, hit["what"], key))
    for key, rep in reported:
        print("VIOLATION property=%s replay=%s key=%s" % (prop, rep, key))
    print("%s tier=%s seed=%d evaluations=%d distinct_nontrivial=%d violations=%d inconclusive=%s wall=%.1fs" %
          (prop, tier, seed, evaluations, len(sigs), len(reported), json.dumps(inconclusive), time.time() - t0))
    if reported:
        return 1
    if harness_fail:
        for h in harness_fail:
            print("HARNESS-FAILURE " + h, file=sys.stderr)
        return 2
    if unmet:
        print("HARNESS-FAILURE coverage thresholds not met (observed nothing): %s" % json.dumps(unmet), file=sys.stderr)
        return 2
    if evaluations == 0 or len(sigs) < 2:
        print("HARNESS-FAILURE nothing non-trivial observed", file=sys.stderr)
        return 2
    return 0


def main():
    ap = argparse.ArgumentParser()
    sub = ap.add_subparsers(dest="cmd", required=True)
    sub.add_parser("setup")
    c = sub.add_parser("check")
    c.add_argument("prop")
    c.add_argument("--tier", default=None)
    c.add_argument("--seed", type=int, default=None)
    a = sub.add_parser("all")
    a.add_argument("--tier", default=None)
    a.add_argument("--seed", type=int, default=None)
    a.add_argument("--only", default=None)
    sub.add_parser("selftest")
    r = sub.add_parser("replay")
    r.add_argument("file")
    r.add_argument("--reps", type=int, default=200)
    args = ap.parse_args()

    if args.cmd == "setup":
        pairs = []
        for p, spec in CHECKS.items():
            for run in spec["runs"]:
                pairs.append((run.get("src", spec["src"]), run["variant"]))
        t0 = time.time()
        outs, errs = build_many(pairs)
        for e in errs:
            print(e, file=sys.stderr)
        print("built %d harness binaries in %.0fs" % (len(outs), time.time() - t0))
        return 2 if errs else 0
    if args.cmd == "selftest":
        # toy programs with a known bug and a correct twin: the engines must flag exactly the buggy ones
        outs, errs = build_many([("selftest.cpp", "plain")])
        if errs:
            print(errs[0])
            return 2
        b = outs[("selftest.cpp", "plain")]
        cases = [("lock_order", "serial", {}), ("lock_order", "stress", {}), ("lost_update", "serial", {}), ("lost_update", "stress", {}),
                 ("lost_wakeup", "serial", {}), ("lost_wakeup", "stress", {}), ("dekker", "serial", {"stale": 1}), ("dekker", "stress", {"tso": 1})]
        bad = 0
        os.makedirs(os.path.join(REPLAYS, "selftest"), exist_ok=True)
        for toy, eng, opt in cases:
            for buggy in (0, 1):
                run = {"variant": "plain", "engine": eng, "mode": toy, "x": {"buggy": buggy}}
                run.update(opt)
                r = run_proc(b, run, 0, 1, 3000, os.path.join(REPLAYS, "selftest"), "quick", 120)
                flagged = r["rc"] == 1 or r["rc"] == 3
                key = (r["res"] or {}).get("violations") or []
                ok = (flagged == bool(buggy))
                bad += not ok
                print("%-12s %-7s %-8s buggy=%d -> %s %s %s" % (toy, eng, ",".join(opt) or "-", buggy, "flagged" if flagged else "silent ",
                                                              (key[0]["key"] if key else ""), "OK" if ok else "SELFTEST-FAILURE"))
        return 1 if bad else 0
    tier = getattr(args, "tier", None) or os.environ.get("VERIF_TIER") or "quick"
    seed = getattr(args, "seed", None)
    if seed is None:
        seed = int(os.environ.get("VERIF_SEED", "1"))
    if args.cmd == "check":
        return check(args.prop, tier, seed)
    if args.cmd == "all":
        rcs = {}
        props = sorted(CHECKS) if not args.only else args.only.split(",")
        for p in props:
            rcs[p] = check(p, tier, seed)
        print(json.dumps(rcs))
        return max(rcs.values()) if rcs else 0
    if args.cmd == "replay":
        rep = json.load(open(args.file))
        cmd = rep.get("cmd")
        if not cmd:
            print("no cmd in replay file")
            return 2
        parts = cmd.split()
        # rebuild the binary for the current tree (path embeds the hash of the tree it was built from)
        m = re.match(r".*/(C\d+\w*?)_(plain|asan|tsan)_[0-9a-f]+$", parts[0])
        if m:
            out, err = build_one(m.group(1) + ".cpp", m.group(2))
            if err:
                print(err)
                return 2
            parts[0] = out
        env = dict(os.environ)
        env.update(SAN_ENV)
        deterministic = "serial" in cmd or "--engine off" in cmd or "--engine seq" in cmd
        reps = 1 if deterministic else args.reps
        for i in range(reps):
            r = subprocess.run(parts, env=env, stdout=subprocess.PIPE, stderr=subprocess.PIPE, text=True, errors="replace")
            if r.returncode != 0:
                print("reproduced on repetition %d: rc=%d" % (i + 1, r.returncode))
                print((r.stderr[-3000:] + r.stdout[-1500:]))
                return 1
        print("not reproduced in %d repetition(s)" % reps)
        return 0


if __name__ == "__main__":
    sys.exit(main())
